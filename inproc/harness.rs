// In-process expansion harness (surface X).  This file is `include!`d into sylvia-derive's
// test build by the `verif-hook` feature; it may only use sylvia-derive's own dependencies.
//
// Jobs are read from the file named by $SYLVIA_VERIF_JOBS, one per line:
//     <id>\t<macro>\t<attr tokens or ->\t<path of a file holding exactly one item>
// One JSON line per job is written to $SYLVIA_VERIF_OUT with the outcome class, digests of
// two expansions, the pass-through comparison (C13) and a structural view of the output.

use std::collections::hash_map::DefaultHasher;
use std::fmt::Write as _;
use std::hash::{Hash, Hasher};
use std::io::Write as _;
use std::panic::{catch_unwind, AssertUnwindSafe};

use quote::ToTokens;

fn js(s: &str) -> String {
    let mut o = String::with_capacity(s.len() + 2);
    o.push('"');
    for c in s.chars() {
        match c {
            '"' => o.push_str("\\\""),
            '\\' => o.push_str("\\\\"),
            '\n' => o.push_str("\\n"),
            '\r' => o.push_str("\\r"),
            '\t' => o.push_str("\\t"),
            c if (c as u32) < 0x20 => {
                let _ = write!(o, "\\u{:04x}", c as u32);
            }
            c => o.push(c),
        }
    }
    o.push('"');
    o
}

fn jlist(items: Vec<String>) -> String {
    format!("[{}]", items.join(","))
}

fn digest(s: &str) -> String {
    let mut h = DefaultHasher::new();
    s.hash(&mut h);
    format!("{:016x}", h.finish())
}

fn ts(t: &impl ToTokens) -> String {
    t.to_token_stream().to_string()
}

enum Outcome {
    Clean(proc_macro2::TokenStream),
    DirtyEmitted,
    Crashed(String),
}

fn panic_text(p: Box<dyn std::any::Any + Send>) -> String {
    if let Some(s) = p.downcast_ref::<&str>() {
        (*s).to_owned()
    } else if let Some(s) = p.downcast_ref::<String>() {
        s.clone()
    } else {
        "<non-string panic>".to_owned()
    }
}

fn expand(mac: &str, attr: proc_macro2::TokenStream, item: proc_macro2::TokenStream) -> Outcome {
    let mut out: Option<proc_macro2::TokenStream> = None;
    let r = catch_unwind(AssertUnwindSafe(|| {
        proc_macro_error::entry_point(
            AssertUnwindSafe(|| {
                out = Some(match mac {
                    "contract" => crate::contract_impl(attr, item),
                    "interface" => crate::interface_impl(attr, item),
                    "entry_points" => crate::entry_points_impl(attr, item),
                    other => panic!("HARNESS: unknown macro {other}"),
                });
                proc_macro::TokenStream::new()
            }),
            false,
        )
    }));
    match r {
        Ok(_) => Outcome::Clean(out.unwrap()),
        Err(p) => {
            let t = panic_text(p);
            if t.contains("procedural macro API is used outside of a procedural macro") && out.is_some() {
                Outcome::DirtyEmitted
            } else {
                Outcome::Crashed(t)
            }
        }
    }
}

// ------------------------------------------------------------------ independent stripper (C13)

/// The framework's own attributes, as documented: `sv::<one of these ten names>`.  Any other attribute,
/// including other paths starting with `sv`, is foreign and has to be passed through.
const FRAMEWORK_ATTRS: [&str; 10] = [
    "custom", "error", "messages", "msg", "override_entry_point", "attr", "msg_attr", "payload", "data", "features",
];

fn is_sv_attr(a: &syn::Attribute) -> bool {
    let p = a.path();
    p.segments.len() == 2
        && p.segments[0].ident == "sv"
        && FRAMEWORK_ATTRS.iter().any(|n| p.segments[1].ident == n)
        && matches!(p.segments[1].arguments, syn::PathArguments::None)
}

fn has_sv_msg(attrs: &[syn::Attribute]) -> bool {
    attrs.iter().any(|a| {
        let p = a.path();
        p.segments.len() == 2 && p.segments[0].ident == "sv" && p.segments[1].ident == "msg"
    })
}

fn strip_sig_attrs(sig: &mut syn::Signature) {
    for inp in sig.inputs.iter_mut() {
        match inp {
            syn::FnArg::Receiver(r) => r.attrs.clear(),
            syn::FnArg::Typed(t) => t.attrs.clear(),
        }
    }
}

/// What the statement of C13 says the re-emitted item is: framework attributes removed from
/// the item and its methods, all attributes removed from the parameters of *handler* methods.
/// Returns (expected text, expected text if parameter attributes of non-handler methods are
/// stripped as well).
fn expected_passthrough(mac: &str, item: &syn::Item) -> (String, String) {
    match (mac, item) {
        ("contract", syn::Item::Impl(i)) => {
            let mut strict = i.clone();
            let mut lax = i.clone();
            for it in [&mut strict, &mut lax] {
                it.attrs.retain(|a| !is_sv_attr(a));
            }
            for (which, it) in [(0, &mut strict), (1, &mut lax)] {
                for m in it.items.iter_mut() {
                    if let syn::ImplItem::Fn(f) = m {
                        let handler = has_sv_msg(&f.attrs);
                        f.attrs.retain(|a| !is_sv_attr(a));
                        if handler || which == 1 {
                            strip_sig_attrs(&mut f.sig);
                        }
                    }
                }
            }
            let pre = "# [allow (clippy :: new_without_default)] ";
            (format!("{pre}{}", ts(&strict)), format!("{pre}{}", ts(&lax)))
        }
        ("interface", syn::Item::Trait(t)) => {
            let mut strict = t.clone();
            let mut lax = t.clone();
            for it in [&mut strict, &mut lax] {
                it.attrs.retain(|a| !is_sv_attr(a));
            }
            for (which, it) in [(0, &mut strict), (1, &mut lax)] {
                for m in it.items.iter_mut() {
                    if let syn::TraitItem::Fn(f) = m {
                        let handler = has_sv_msg(&f.attrs);
                        f.attrs.retain(|a| !is_sv_attr(a));
                        if handler || which == 1 {
                            strip_sig_attrs(&mut f.sig);
                        }
                    }
                }
            }
            (ts(&strict), ts(&lax))
        }
        (_, other) => (ts(other), ts(other)),
    }
}

struct NoTrailingComma;
impl syn::fold::Fold for NoTrailingComma {
    fn fold_signature(&mut self, mut s: syn::Signature) -> syn::Signature {
        s.inputs.pop_punct();
        syn::fold::fold_signature(self, s)
    }
}

// ------------------------------------------------------------------ structural view

fn attrs_json(attrs: &[syn::Attribute]) -> String {
    jlist(attrs.iter().map(|a| js(&ts(&a.meta))).collect())
}

fn generics_json(g: &syn::Generics) -> String {
    let params: Vec<String> = g
        .params
        .iter()
        .map(|p| match p {
            syn::GenericParam::Type(t) => js(&t.ident.to_string()),
            syn::GenericParam::Lifetime(l) => js(&l.lifetime.to_string()),
            syn::GenericParam::Const(c) => js(&c.ident.to_string()),
        })
        .collect();
    let bounds: Vec<String> = g
        .params
        .iter()
        .filter_map(|p| match p {
            syn::GenericParam::Type(t) if !t.bounds.is_empty() => Some(js(&ts(t))),
            _ => None,
        })
        .collect();
    let wh: Vec<String> = g
        .where_clause
        .as_ref()
        .map(|w| w.predicates.iter().map(|p| js(&ts(p))).collect())
        .unwrap_or_default();
    format!("{{\"params\":{},\"inline_bounds\":{},\"where\":{}}}", jlist(params), jlist(bounds), jlist(wh))
}

fn fields_json(f: &syn::Fields) -> String {
    jlist(
        f.iter()
            .map(|fl| {
                format!(
                    "{{\"name\":{},\"ty\":{},\"attrs\":{},\"vis\":{}}}",
                    js(&fl.ident.as_ref().map(|i| i.to_string()).unwrap_or_default()),
                    js(&ts(&fl.ty)),
                    attrs_json(&fl.attrs),
                    js(&ts(&fl.vis))
                )
            })
            .collect(),
    )
}

/// The arms of the first `match` expression found at statement level of a block (dispatch functions are
/// one big `match`); lets the oracle compare dispatch bodies as a *set* of arms.
fn match_arms(block: &syn::Block) -> Vec<String> {
    fn of_expr(e: &syn::Expr) -> Option<Vec<String>> {
        match e {
            syn::Expr::Match(m) => Some(m.arms.iter().map(|a| ts(a)).collect()),
            syn::Expr::Block(b) => of_block(&b.block),
            syn::Expr::Paren(p) => of_expr(&p.expr),
            _ => None,
        }
    }
    fn of_block(b: &syn::Block) -> Option<Vec<String>> {
        for st in &b.stmts {
            if let syn::Stmt::Expr(e, _) = st {
                if let Some(v) = of_expr(e) {
                    return Some(v);
                }
            }
        }
        None
    }
    of_block(block).unwrap_or_default()
}

fn sig_json(sig: &syn::Signature) -> String {
    let params: Vec<String> = sig
        .inputs
        .iter()
        .map(|a| match a {
            syn::FnArg::Receiver(r) => js(&ts(r)),
            syn::FnArg::Typed(t) => js(&ts(t)),
        })
        .collect();
    format!(
        "{{\"name\":{},\"generics\":{},\"params\":{},\"ret\":{}}}",
        js(&sig.ident.to_string()),
        generics_json(&sig.generics),
        jlist(params),
        js(&ts(&sig.output))
    )
}

fn walk(items: &[syn::Item], path: &str, out: &mut Vec<String>) {
    for it in items {
        match it {
            syn::Item::Mod(m) => {
                let p = format!("{path}::{}", m.ident);
                out.push(format!("{{\"k\":\"mod\",\"path\":{}}}", js(&p)));
                if let Some((_, its)) = &m.content {
                    walk(its, &p, out);
                }
            }
            syn::Item::Enum(e) => {
                let vars: Vec<String> = e
                    .variants
                    .iter()
                    .map(|v| {
                        format!(
                            "{{\"name\":{},\"attrs\":{},\"fields\":{},\"shape\":{}}}",
                            js(&v.ident.to_string()),
                            attrs_json(&v.attrs),
                            fields_json(&v.fields),
                            js(match v.fields {
                                syn::Fields::Named(_) => "named",
                                syn::Fields::Unnamed(_) => "tuple",
                                syn::Fields::Unit => "unit",
                            })
                        )
                    })
                    .collect();
                out.push(format!(
                    "{{\"k\":\"enum\",\"path\":{},\"name\":{},\"attrs\":{},\"generics\":{},\"variants\":{}}}",
                    js(path),
                    js(&e.ident.to_string()),
                    attrs_json(&e.attrs),
                    generics_json(&e.generics),
                    jlist(vars)
                ));
            }
            syn::Item::Struct(s) => out.push(format!(
                "{{\"k\":\"struct\",\"path\":{},\"name\":{},\"attrs\":{},\"generics\":{},\"fields\":{}}}",
                js(path),
                js(&s.ident.to_string()),
                attrs_json(&s.attrs),
                generics_json(&s.generics),
                fields_json(&s.fields)
            )),
            syn::Item::Fn(f) => out.push(format!(
                "{{\"k\":\"fn\",\"path\":{},\"sig\":{},\"attrs\":{},\"text\":{},\"arms\":{}}}",
                js(path),
                sig_json(&f.sig),
                attrs_json(&f.attrs),
                js(&ts(f)),
                jlist(match_arms(&f.block).iter().map(|a| js(a)).collect())
            )),
            syn::Item::Const(c) => out.push(format!(
                "{{\"k\":\"const\",\"path\":{},\"name\":{},\"value\":{}}}",
                js(path),
                js(&c.ident.to_string()),
                js(&ts(&c.expr))
            )),
            syn::Item::Type(t) => out.push(format!(
                "{{\"k\":\"type\",\"path\":{},\"name\":{},\"generics\":{},\"ty\":{}}}",
                js(path),
                js(&t.ident.to_string()),
                generics_json(&t.generics),
                js(&ts(&t.ty))
            )),
            syn::Item::Trait(t) => {
                let ms: Vec<String> = t
                    .items
                    .iter()
                    .filter_map(|i| match i {
                        syn::TraitItem::Fn(f) => Some(sig_json(&f.sig)),
                        _ => None,
                    })
                    .collect();
                let tys: Vec<String> = t
                    .items
                    .iter()
                    .filter_map(|i| match i {
                        syn::TraitItem::Type(f) => Some(js(&ts(f))),
                        _ => None,
                    })
                    .collect();
                out.push(format!(
                    "{{\"k\":\"trait\",\"path\":{},\"name\":{},\"generics\":{},\"methods\":{},\"types\":{}}}",
                    js(path),
                    js(&t.ident.to_string()),
                    generics_json(&t.generics),
                    jlist(ms),
                    jlist(tys)
                ));
            }
            syn::Item::Impl(i) => {
                let ms: Vec<String> = i
                    .items
                    .iter()
                    .filter_map(|x| match x {
                        syn::ImplItem::Fn(f) => Some(format!(
                            "{{\"sig\":{},\"body\":{},\"arms\":{}}}",
                            sig_json(&f.sig),
                            js(&ts(&f.block)),
                            jlist(match_arms(&f.block).iter().map(|a| js(a)).collect())
                        )),
                        _ => None,
                    })
                    .collect();
                let tys: Vec<String> = i
                    .items
                    .iter()
                    .filter_map(|x| match x {
                        syn::ImplItem::Type(t) => Some(js(&ts(t))),
                        _ => None,
                    })
                    .collect();
                out.push(format!(
                    "{{\"k\":\"impl\",\"path\":{},\"self_ty\":{},\"trait\":{},\"generics\":{},\"methods\":{},\"types\":{}}}",
                    js(path),
                    js(&ts(&i.self_ty)),
                    js(&i.trait_.as_ref().map(|(_, p, _)| ts(p)).unwrap_or_default()),
                    generics_json(&i.generics),
                    jlist(ms),
                    jlist(tys)
                ));
            }
            syn::Item::Macro(m) => out.push(format!(
                "{{\"k\":\"macro\",\"path\":{},\"name\":{}}}",
                js(path),
                js(&ts(&m.mac.path))
            )),
            syn::Item::Use(u) => out.push(format!("{{\"k\":\"use\",\"path\":{},\"text\":{}}}", js(path), js(&ts(u)))),
            other => out.push(format!("{{\"k\":\"other\",\"path\":{},\"text\":{}}}", js(path), js(&ts(other)))),
        }
    }
}

fn contains_compile_error(t: &proc_macro2::TokenStream) -> bool {
    let mut prev_ident: Option<String> = None;
    for tt in t.clone() {
        match tt {
            proc_macro2::TokenTree::Group(g) => {
                if contains_compile_error(&g.stream()) {
                    return true;
                }
                prev_ident = None;
            }
            proc_macro2::TokenTree::Ident(i) => prev_ident = Some(i.to_string()),
            proc_macro2::TokenTree::Punct(p) => {
                if p.as_char() == '!' && prev_ident.as_deref() == Some("compile_error") {
                    return true;
                }
                prev_ident = None;
            }
            _ => prev_ident = None,
        }
    }
    false
}

/// Which sylvia macro an attribute names (`contract`, `sylvia::interface`, `entry_points(..)`,
/// also inside `cfg_attr(.., <macro>)`), with the macro's argument tokens.
fn macro_of(a: &syn::Attribute) -> Option<(String, proc_macro2::TokenStream)> {
    fn of_meta(m: &syn::Meta) -> Option<(String, proc_macro2::TokenStream)> {
        let last = m.path().segments.last()?.ident.to_string();
        if m.path().segments.len() > 2 {
            return None;
        }
        if m.path().segments.len() == 2 && m.path().segments[0].ident != "sylvia" {
            return None;
        }
        match last.as_str() {
            "contract" | "interface" | "entry_points" => {
                let args = match m {
                    syn::Meta::List(l) => l.tokens.clone(),
                    _ => proc_macro2::TokenStream::new(),
                };
                Some((last, args))
            }
            _ => None,
        }
    }
    if a.path().is_ident("cfg_attr") {
        if let syn::Meta::List(l) = &a.meta {
            let parsed = syn::parse::Parser::parse2(
                syn::punctuated::Punctuated::<syn::Meta, syn::Token![,]>::parse_terminated,
                l.tokens.clone(),
            )
            .ok()?;
            return parsed.iter().skip(1).find_map(of_meta);
        }
        return None;
    }
    of_meta(&a.meta)
}

/// Every item of a real source file that carries a sylvia macro attribute, as
/// (macro, macro arguments, item without that attribute).
fn annotated_items(items: &[syn::Item], out: &mut Vec<(String, proc_macro2::TokenStream, proc_macro2::TokenStream)>) {
    for it in items {
        match it {
            syn::Item::Mod(m) => {
                if let Some((_, its)) = &m.content {
                    annotated_items(its, out);
                }
            }
            syn::Item::Impl(i) => {
                if let Some(pos) = i.attrs.iter().position(|a| macro_of(a).is_some()) {
                    let (mac, args) = macro_of(&i.attrs[pos]).unwrap();
                    let mut c = i.clone();
                    c.attrs.remove(pos);
                    out.push((mac.clone(), args, c.to_token_stream()));
                    // `#[entry_points] #[contract] impl`: the contract macro sees the item afterwards
                    if mac == "entry_points" {
                        if let Some(pos2) = c.attrs.iter().position(|a| macro_of(a).is_some()) {
                            let (mac2, args2) = macro_of(&c.attrs[pos2]).unwrap();
                            let mut c2 = c.clone();
                            c2.attrs.remove(pos2);
                            out.push((mac2, args2, c2.to_token_stream()));
                        }
                    }
                }
            }
            syn::Item::Trait(t) => {
                if let Some(pos) = t.attrs.iter().position(|a| macro_of(a).is_some()) {
                    let (mac, args) = macro_of(&t.attrs[pos]).unwrap();
                    let mut c = t.clone();
                    c.attrs.remove(pos);
                    out.push((mac, args, c.to_token_stream()));
                }
            }
            _ => {}
        }
    }
}

fn run_file_job(id: &str, path: &str, out: &mut Vec<String>) {
    let src = match std::fs::read_to_string(path) {
        Ok(s) => s,
        Err(e) => {
            out.push(format!("{{\"id\":{},\"harness_error\":{}}}", js(id), js(&format!("read {path}: {e}"))));
            return;
        }
    };
    let file = match syn::parse_file(&src) {
        Ok(f) => f,
        Err(e) => {
            out.push(format!("{{\"id\":{},\"file_parse_error\":{},\"status\":\"skipped\"}}", js(id), js(&e.to_string())));
            return;
        }
    };
    let mut found = Vec::new();
    annotated_items(&file.items, &mut found);
    out.push(format!("{{\"id\":{},\"status\":\"file\",\"items\":{}}}", js(id), found.len()));
    for (n, (mac, args, item)) in found.into_iter().enumerate() {
        out.push(run_tokens(&format!("{id}#{n}"), &mac, args, item, false));
    }
}

fn run_job(id: &str, mac: &str, attr_s: &str, path: &str, want_view: bool) -> String {
    let src = match std::fs::read_to_string(path) {
        Ok(s) => s,
        Err(e) => return format!("{{\"id\":{},\"harness_error\":{}}}", js(id), js(&format!("read {path}: {e}"))),
    };
    let item_ts: proc_macro2::TokenStream = match src.parse() {
        Ok(t) => t,
        Err(e) => return format!("{{\"id\":{},\"harness_error\":{}}}", js(id), js(&format!("lex: {e}"))),
    };
    let attr: proc_macro2::TokenStream = if attr_s == "-" { proc_macro2::TokenStream::new() } else { attr_s.parse().unwrap() };
    run_tokens(id, mac, attr, item_ts, want_view)
}

fn run_tokens(id: &str, mac: &str, attr: proc_macro2::TokenStream, item_ts: proc_macro2::TokenStream, want_view: bool) -> String {
    let first = expand(mac, attr.clone(), item_ts.clone());
    let second = expand(mac, attr, item_ts.clone());
    let mut o = format!("{{\"id\":{},\"macro\":{}", js(id), js(mac));
    let (status, text1) = match &first {
        Outcome::Clean(t) => {
            if contains_compile_error(t) {
                ("dirty-tokens", Some(t.to_string()))
            } else {
                ("clean", Some(t.to_string()))
            }
        }
        Outcome::DirtyEmitted => ("dirty-emitted", None),
        Outcome::Crashed(m) => {
            let _ = write!(o, ",\"panic\":{}", js(m));
            ("crashed", None)
        }
    };
    let _ = write!(o, ",\"status\":{}", js(status));
    let text2 = match &second {
        Outcome::Clean(t) => Some(t.to_string()),
        _ => None,
    };
    let same_class = matches!(
        (&first, &second),
        (Outcome::Clean(_), Outcome::Clean(_)) | (Outcome::DirtyEmitted, Outcome::DirtyEmitted) | (Outcome::Crashed(_), Outcome::Crashed(_))
    );
    let _ = write!(o, ",\"second_same_class\":{}", same_class);
    if let (Some(a), Some(b)) = (&text1, &text2) {
        let _ = write!(o, ",\"digest\":{},\"digest2\":{},\"len\":{}", js(&digest(a)), js(&digest(b)), a.len());
    }
    if let Outcome::Clean(t) = &first {
        if status == "clean" {
            match syn::parse2::<syn::File>(t.clone()) {
                Ok(f) => {
                    // pass-through comparison on the first emitted item
                    if let Ok(inp) = syn::parse2::<syn::Item>(item_ts.clone()) {
                        let (strict, lax) = expected_passthrough(mac, &inp);
                        // a trailing comma in a parameter list is not part of what the user "wrote"
                        // in any semantic sense: normalise it away on both sides
                        let norm = |text: &str| -> String {
                            match syn::parse_str::<syn::Item>(text) {
                                Ok(i) => ts(&syn::fold::Fold::fold_item(&mut NoTrailingComma, i)),
                                Err(_) => text.to_owned(),
                            }
                        };
                        let strict = norm(&strict);
                        let lax = norm(&lax);
                        let got = f.items.first().map(|i| norm(&ts(i))).unwrap_or_default();
                        let _ = write!(
                            o,
                            ",\"pass_strict\":{},\"pass_lax\":{}",
                            got == strict,
                            got == lax
                        );
                        if got != strict {
                            let _ = write!(o, ",\"first_item\":{},\"expected_item\":{}", js(&got), js(&strict));
                        }
                    }
                    if want_view {
                        let mut v = Vec::new();
                        walk(&f.items[1.min(f.items.len())..], "", &mut v);
                        let _ = write!(o, ",\"view\":{}", jlist(v));
                    }
                }
                Err(e) => {
                    let _ = write!(o, ",\"output_parse_error\":{}", js(&e.to_string()));
                }
            }
        }
    }
    o.push('}');
    o
}

#[test]
fn verif_run() {
    let jobs = std::env::var("SYLVIA_VERIF_JOBS").expect("SYLVIA_VERIF_JOBS");
    let outp = std::env::var("SYLVIA_VERIF_OUT").expect("SYLVIA_VERIF_OUT");
    std::panic::set_hook(Box::new(|_| {}));
    let text = std::fs::read_to_string(&jobs).expect("jobs file");
    let mut out = std::io::BufWriter::new(std::fs::File::create(&outp).expect("out file"));
    for line in text.lines() {
        let p: Vec<&str> = line.split('\t').collect();
        if p.len() < 4 {
            continue;
        }
        let want_view = p.get(4).map(|s| *s != "noview").unwrap_or(true);
        if p[1] == "file" {
            let mut rs = Vec::new();
            run_file_job(p[0], p[3], &mut rs);
            for r in rs {
                writeln!(out, "{r}").unwrap();
            }
            continue;
        }
        let r = run_job(p[0], p[1], p[2], p[3], want_view);
        writeln!(out, "{r}").unwrap();
    }
    out.flush().unwrap();
}
