#!/bin/sh
# Offline setup: pre-build the quick-tier runner workspace so that the first check does not pay
# for compiling the dependency tree.  Everything is rebuilt from /repo's working tree by cargo
# whenever it changes; this script only warms the cache.
set -e
cd "$(dirname "$0")"
export CARGO_NET_OFFLINE=true
python3 -m vlib.setup || true
exit 0
