"""Rust rendering of a program spec: the annotated source plus the per-program glue that
exposes typed operations of the generated code to the command server."""
from . import types as T
from .spec import EP_OF, KINDS_ENUM, part_customs, handlers

CTX_OF = {"instantiate": "InstantiateCtx", "exec": "ExecCtx", "query": "QueryCtx", "sudo": "SudoCtx",
          "migrate": "MigrateCtx", "reply": "ReplyCtx"}
MSG_OF = {"instantiate": "InstantiateMsg", "exec": "ExecMsg", "query": "QueryMsg", "sudo": "SudoMsg",
          "migrate": "MigrateMsg"}
WRAP_OF = {"exec": "ContractExecMsg", "query": "ContractQueryMsg", "sudo": "ContractSudoMsg"}


def cm(prog, sv="sylvia"):
    return "MyMsg" if prog["custom"]["msg"] else "Empty"


def cq(prog, sv="sylvia"):
    return "MyQuery" if prog["custom"]["query"] else "Empty"


def err_ty(name):
    return name  # StdError | MonErr | IfaceErr are all in scope


def part_err(prog, part):
    return prog["error"] if part["id"] == "c" else part["error"]


class R:
    """Renderer for one program.  `order` optionally permutes declaration order (C14)."""

    def __init__(self, prog, sv="sylvia", order=None, contract_ident="Contract"):
        self.p = prog
        self.sv = sv
        self.order = order or {}
        self.cid = contract_ident
        self._iface_items = {}
        self._contract_item = None
        gs = prog.get("generics") or []
        self.gnames = [g["name"] for g in gs]
        lt = prog.get("lifetime")   # a lifetime parameter in front of the type parameters
        self.gdecl = ("<" + ", ".join(([lt] if lt else []) + self.gnames) + ">") if gs else ""
        self.gwhere = ""
        if gs:
            hl = prog.get("hrtb_lt", "'de")
            hrtb = (f"{sv}::serde::Serialize + for<{hl}> {sv}::serde::Deserialize<{hl}> + Clone + std::fmt::Debug + PartialEq + "
                    f"{sv}::schemars::JsonSchema")
            preds = [f"{g['name']}: {g.get('bound') or (hrtb if g.get('hrtb') else 'svmon::Param')} + " + (g["extra_bound"] + " + " if g.get("extra_bound") else "") + "'static" for g in gs]
            self.gwhere = " where " + ", ".join(preds)
        # concrete contract type, usable in type and expression position
        self.conc = (["'static"] if (lt and gs) else []) + [g["concrete"] for g in gs]
        self.ct = contract_ident + (("::<" + ", ".join(self.conc) + ">") if gs else "")

    # ---------------------------------------------------------- source
    def ty(self, ti):
        return self.p["types"][ti].rust

    def cty(self, ti):
        return self.p["types"][ti].concrete

    def tty(self, ti):
        return self.p["types"][ti].trait_rust

    def _params(self, h, with_attrs=True, in_trait=False):
        out = []
        for a in h["args"]:
            attrs = "".join(f"#[{x}] " for x in a.get("attrs", [])) if with_attrs else ""
            out.append(f"{attrs}{a['name']}: {self.tty(a['ti']) if in_trait else self.ty(a['ti'])}")
        return out

    def _echo_args(self, h):
        return "vec![" + ", ".join(f"(\"{T.arg_key(a)}\", j(&{a['name']}))" for a in h["args"]) + "]"

    def _ret(self, h, m, e, in_trait=False):
        if h.get("ret_err") == "lookup":
            # a handler-local error type that converts into the contract's error (and has no From<StdError>)
            e = "LookupErr"
        if h["kind"] == "query":
            r = self.tty(h["resp_ti"]) if in_trait else self.ty(h["resp_ti"])
            if h.get("resp_explicit") and not h.get("resp_literal"):
                return f"svmon::QResult<{r}, {'StdError' if h['ret_err'] == 'std' else e}>"
            return f"StdResult<{r}>" if h["ret_err"] == "std" else f"Result<{r}, {e}>"
        return f"StdResult<Response<{m}>>" if h["ret_err"] == "std" else f"Result<Response<{m}>, {e}>"

    @staticmethod
    def _cx(h):
        """Name of the context parameter: `ctx`, unless a message parameter already has that name."""
        return "cx" if any(a["name"] == "ctx" for a in h.get("args", [])) else "ctx"

    def _body(self, h):
        k = h["kind"]
        hid = h["hid"]
        cx = self._cx(h)
        if k == "query":
            return f"echo_query(\"{hid}\", {cx}.deps, &{cx}.env, {self._echo_args(h)})"
        info = f"Some(&{cx}.info)" if k in ("instantiate", "exec") else "None"
        return f"echo_mut(\"{hid}\", {cx}.deps, &{cx}.env, {info}, None, {self._echo_args(h)})"

    def _msg_attr(self, h):
        extra = ""
        if h["kind"] == "query" and h.get("resp_explicit"):
            extra = f", resp={h['resp_explicit']}"
        lines = [h.get("msg_attr_text") or f"#[sv::msg({h['kind']}{extra})]"]
        above = h.get("sv_attrs_above", 0)
        if self.order.get("attr_pos") == "flip" and h.get("sv_attrs"):
            # the other position of the handler's sv::attr lines relative to its sv::msg line (C14)
            above = 0 if above else len(h["sv_attrs"])
        elif self.order.get("attr_pos") == "reverse" and h.get("sv_attrs"):
            h = dict(h, sv_attrs=list(reversed(h["sv_attrs"])))
        for i, at in enumerate(h.get("sv_attrs", [])):
            if i < above:
                lines.insert(i, f"#[sv::attr({at})]")
            else:
                lines.append(f"#[sv::attr({at})]")
        for at in h.get("foreign_attrs", []):
            lines.append(f"#[{at}]")
        # foreign attributes / doc comments written in front of the framework's own attributes
        for at in reversed(h.get("foreign_attrs_above", [])):
            lines.insert(0, at if at.startswith("///") else f"#[{at}]")
        return lines

    def iface_src(self, part):
        p = self.p
        sv = self.sv
        mode = part["custom_mode"]
        M, Q = cm(p), cq(p)
        if mode == "assoc":
            m_t, q_t = "Self::ExecC", "Self::QueryC"
        elif mode == "empty":
            m_t, q_t = "Empty", "Empty"
        else:
            m_t, q_t = M, Q
        mods = part["module"].split("::")
        lines = [f"pub mod {m} {{" for m in mods] + ["    use " + "super::" * len(mods) + "*;", f"    #[{sv}::interface]"]
        item_start = len(lines)
        if mode == "fixed":
            lines.append(f"    #[sv::custom(msg={M}, query={Q})]")
        for (k, at) in part.get("msg_attrs", []):
            lines.append(f"    #[sv::msg_attr({k}, {at})]")
        for at in part.get("foreign_attrs", []):
            lines.append(f"    #[{at}]")
        for at in part.get("raw_attrs", []):
            lines.append("    " + at)
        lines.append(f"    pub trait {part['trait']}{part.get('trait_generics', '')} {{")
        items = ["        " + ia for ia in part.get("inner_attrs", [])]
        items += [] if part.get("no_error_type") else ["        type Error: From<StdError>;"]
        if mode == "assoc":
            items.append("        type ExecC: CustomMsg;")
            items.append("        type QueryC: CustomQuery;")
        for (an, _) in part.get("assoc", []):
            if part.get("assoc_hrtb"):
                # the bound written out with a higher-ranked lifetime of the user's choosing
                hl, sv_ = part["assoc_hrtb"], self.sv
                items.append(f"        type {an}: {sv_}::serde::Serialize + for<{hl}> {sv_}::serde::Deserialize<{hl}> + Clone + std::fmt::Debug + PartialEq + {sv_}::schemars::JsonSchema;")
            else:
                items.append(f"        type {an}: svmon::Param;")
        hs = self._ordered(part)
        for h in hs:
            for l in self._msg_attr(h):
                items.append("        " + l)
            ctx = f"{CTX_OF[h.get('ctx_kind', h['kind'])]}<{q_t}>"
            params = ", ".join([h.get("self_text", "&self"), f"{h.get('ctx_attr', '')}{self._cx(h)}: {ctx}"] + self._params(h, in_trait=True))
            if h.get("provided"):
                # a provided method is a handler like any other; its default body is never used (the contract implements it)
                dflt = ("Err(StdError::generic_err(\"provided\"))" if h["ret_err"] == "std"
                        else "Err(Self::Error::from(StdError::generic_err(\"provided\")))")
                items.append(f"        fn {h['name']}({params}) -> {self._ret(h, m_t, 'Self::Error', in_trait=True)} {{ {dflt} }}")
            else:
                items.append(f"        fn {h['name']}({params}) -> {self._ret(h, m_t, 'Self::Error', in_trait=True)};")
        lines += items
        for extra in part.get("extra_items", []):
            lines.append("        " + extra)
        lines.append("    }")
        self._iface_items[part["id"]] = "\n".join(lines[item_start:])
        lines += ["}"] * len(mods)
        # impl on the contract
        lines.append(f"impl{self.gdecl} {part['module']}::{part['trait']} for {self.cid}{self.gdecl}{self.gwhere} {{")
        lines.append(f"    type Error = {part['error']};")
        if mode == "assoc":
            lines.append(f"    type ExecC = {M};")
            lines.append(f"    type QueryC = {Q};")
        for (an, at) in part.get("assoc", []):
            lines.append(f"    type {an} = {at};")
        mi, qi = (M, Q) if mode != "empty" else ("Empty", "Empty")
        for h in hs:
            ctx = f"{CTX_OF[h.get('ctx_kind', h['kind'])]}<{qi}>"
            params = ", ".join([f"&self", f"{self._cx(h)}: {ctx}"] + self._params(h, with_attrs=False))
            lines.append(f"    fn {h['name']}({params}) -> {self._ret(h, mi, part['error'])} {{")
            lines.append(f"        {self._body(h)}")
            lines.append("    }")
        lines.append("}")
        return lines

    def _ordered(self, part):
        hs = list(part["handlers"])
        o = self.order.get(part["id"])
        if o:
            hs = [hs[i] for i in o]
        return hs

    def messages_attr(self, part):
        p = self.p
        extra = []
        if part["custom_mode"] == "empty":
            if p["custom"]["msg"]:
                extra.append("msg")
            if p["custom"]["query"]:
                extra.append("query")
            # the flag may also be written when the contract itself stays with Empty: the interface's responses are still converted
            extra += [f for f in part.get("extra_flags", []) if f not in extra]
        s = part["module"]
        if part.get("as_name"):
            s += f" as {part['as_name']}"
        if extra:
            if part.get("custom_flags_reversed"):
                extra.reverse()
            s += ": custom(" + ", ".join(extra) + ("," if part.get("custom_flags_trailing_comma") else "") + ")"
        return f"#[sv::messages({s})]"

    def contract_src(self, entry_points=True):
        p = self.p
        sv = self.sv
        M, Q = cm(p), cq(p)
        c = p["parts"][0]
        if self.gnames:
            lt = p.get("lifetime")
            ph = ([f"&{lt} ()"] if lt else []) + self.gnames
            lines = [f"pub struct {self.cid}{self.gdecl}(std::marker::PhantomData<({', '.join(ph)},)>);"]
        else:
            lines = [f"pub struct {self.cid};"]
        attrs = []
        if entry_points:
            ea = p.get("entry_points_args")
            if ea == "":
                ea = None
            elif ea is None and self.gnames:
                ea = "generics<" + ", ".join(self.conc) + ">"
            attrs.append(f"#[{sv}::entry_points({ea})]" if ea else f"#[{sv}::entry_points]")
        attrs.append(f"#[{sv}::contract]")
        body_attrs = []
        if p["error"] != "StdError":
            body_attrs.append(f"#[sv::error({p['error']})]")
        if p["custom"]["msg"] or p["custom"]["query"]:
            parts = []
            if p["custom"]["msg"]:
                parts.append("msg=MyMsg")
            if p["custom"]["query"]:
                parts.append("query=MyQuery")
            body_attrs.append(f"#[sv::custom({', '.join(parts)})]")
        if p.get("replies"):
            body_attrs.append("#[sv::features(replies)]")
        miface = [self.messages_attr(part) for part in p["parts"][1:] if not part.get("skip_messages_attr")]
        o = self.order.get("messages")
        if o:
            miface = [miface[i] for i in o]
        body_attrs += miface
        for ov in p.get("overrides", []):
            body_attrs.append(f"#[sv::override_entry_point({ov['kind']}={ov['fn']}({ov['msg']}))]")
        for (k, at) in c.get("msg_attrs", []):
            body_attrs.append(f"#[sv::msg_attr({k}, {at})]")
        o = self.order.get("attrs")
        if o:
            body_attrs = [body_attrs[i] for i in o]
        lines += attrs
        item_start = len(lines)
        lines += body_attrs
        for at in c.get("foreign_attrs", []):
            lines.append(f"#[{at}]")
        for at in c.get("raw_attrs", []):
            lines.append(at)
        lines.append(f"impl{self.gdecl} {self.cid}{self.gdecl}{self.gwhere} {{")
        for ia in c.get("inner_attrs", []):
            lines.append("    " + ia)
        for extra in c.get("extra_items_first", []):
            lines.append("    " + extra)
        nm = p.get("new_mode")
        if nm and nm.startswith("params"):
            ptxt = {"params": "seed: u32", "params_wild": "_: String", "params_tuple": "(a, b): (String, u64)", "params_self": "&self",
                    "params_mut": "mut seed: u32"}[nm]
            ret = f"{self.cid}(std::marker::PhantomData)" if self.gnames else self.cid
            lines.append(f"    pub fn new({ptxt}) -> Self {{ svmon::note_new(); {ret} }}")
        elif nm != "none":
            val = f"{self.cid}(std::marker::PhantomData)" if self.gnames else self.cid
            note = "svmon::note_new_of(std::any::type_name::<Self>())" if self.gnames else "svmon::note_new()"
            lines.append(f"    pub fn new() -> Self {{ {note}; {val} }}")
        between = sorted(p.get("impl_between", []), key=lambda x: x[0])
        for slot, h in enumerate(self._ordered(c)):
            while between and between[0][0] <= slot:
                lines.append("    " + between.pop(0)[1])
            if h["kind"] == "reply":
                lines += ["    " + l for l in self.reply_handler_src(h)]
                continue
            for l in self._msg_attr(h):
                lines.append("    " + l)
            ctx = f"{CTX_OF[h.get('ctx_kind', h['kind'])]}<{Q}>"
            params = ", ".join([h.get("self_text", "&self"), f"{h.get('ctx_attr', '')}{self._cx(h)}: {ctx}"] + self._params(h))
            lines.append(f"    pub fn {h['name']}({params}) -> {self._ret(h, M, p['error'])} {{")
            for bl in h.get("body_prefix", []):
                lines.append("        " + bl)
            lines.append(f"        {self._body(h)}")
            lines.append("    }")
        for _, it in between:
            lines.append("    " + it)
        for extra in c.get("extra_items", []):
            lines.append("    " + extra)
        lines.append("}")
        self._contract_item = "\n".join(lines[item_start:])
        return lines

    def iface_item(self, part):
        self.iface_src(part)
        return self._iface_items[part["id"]]

    def contract_item(self, with_contract_attr=False):
        self.contract_src()
        return (f"#[{self.sv}::contract]\n" if with_contract_attr else "") + self._contract_item

    def data_param(self, h):
        """(attribute, rust type, echo expression) of a success method's data parameter."""
        from .spec import data_attr
        mode = h["data"]
        if mode is None:
            return None
        if mode == "raw":
            ty = "Binary"
        elif mode == "raw_opt":
            ty = "Option<Binary>"
        elif mode == "typed":
            ty = self.ty(h["data_ti"])
        elif mode == "opt":
            ty = f"Option<{self.ty(h['data_ti'])}>"
        elif mode == "instantiate":
            ty = f"{self.sv}::cw_utils::MsgInstantiateContractResponse"
        else:
            ty = f"Option<{self.sv}::cw_utils::MsgInstantiateContractResponse>"
        if mode == "instantiate":
            echo = "j(&(data.contract_address.clone(), data.data.clone()))"
        elif mode == "instantiate_opt":
            echo = "j(&data.as_ref().map(|d| (d.contract_address.clone(), d.data.clone())))"
        else:
            echo = "j(&data)"
        return data_attr(mode), ty, echo

    def reply_handler_src(self, h):
        p = self.p
        M, Q = cm(p), cq(p)
        if h.get("legacy"):
            # (the handler may use another error type than the contract's: the entry point converts it)
            ret = f"StdResult<Response<{M}>>" if h.get("ret_err") == "std" else f"Result<Response<{M}>, {p['error']}>"
            return [(at if at.startswith("///") else f"#[{at}]") for at in h.get("foreign_attrs_above", [])] + [
                    "#[sv::msg(reply)]",
                    f"fn {h['name']}(&self, ctx: {self.sv}::types::ReplyCtx<{Q}>, reply: Reply) -> {ret} {{",
                    f"    echo_mut(\"{h['hid']}\", ctx.deps, &ctx.env, None, None, vec![(\"reply\", svmon::serde_json::to_string(&reply).unwrap())])",
                    "}"]
        args_ = []
        if h.get("handlers"):
            k = h.get("handlers_split")
            if k:
                # the list may be given in several `handlers=[..]` arguments: they add up
                args_ += ["handlers=[" + ", ".join(h["handlers"][:k]) + "]", "handlers=[" + ", ".join(h["handlers"][k:]) + "]"]
            else:
                args_.append("handlers=[" + ", ".join(h["handlers"]) + "]")
        if h.get("reply_on_first"):
            args_.insert(0, f"reply_on={h['reply_on']}")
        else:
            args_.append(f"reply_on={h['reply_on']}")
        extra = "".join(", " + x for x in args_)
        lines = [(at if at.startswith("///") else f"#[{at}]") for at in h.get("foreign_attrs_above", [])] + [h.get("msg_attr_text") or f"#[sv::msg(reply{extra})]"]
        params = [h.get("self_text", "&self"), f"{h.get('ctx_attr', '')}ctx: ReplyCtx<{Q}>"]
        echo = []
        if h.get("params_text") is not None:
            # rule-breaking mutants supply the parameter list verbatim
            lines.append(f"fn {h['name']}({', '.join(params + h['params_text'])}) -> {self._ret(h, M, p['error'])} {{")
            lines.append("    todo!()")
            lines.append("}")
            return lines
        if h["reply_on"] == "success":
            dp = self.data_param(h)
            if dp:
                params.append(f"{h.get('data_attr_prefix', '')}{h.get('data_attr_text') or dp[0]} data: {dp[1]}")
                echo.append(f"(\"data\", {dp[2]})")
        elif h["reply_on"] == "error":
            params.append("error: String")
            echo.append("(\"error\", j(&error))")
        else:
            params.append("result: SubMsgResult")
            echo.append("(\"result\", svmon::serde_json::to_string(&result).unwrap())")
        if h["payload"] == "raw" or h.get("raw_mark"):
            params.append(f"{h.get('payload_attr_text', '#[sv::payload(raw)]')} payload: Binary")
            echo.append("(\"payload\", j(&payload))")
        else:
            for nm, ti in zip(h["payload_names"], h["payload"]):
                params.append(f"{nm}: {self.ty(ti)}")
                echo.append(f"(\"{nm}\", j(&{nm}))")
        lines.append(f"fn {h['name']}({', '.join(params)}) -> {self._ret(h, M, p['error'])} {{")
        lines.append("    let obs = ReplyObs { gas_used: ctx.gas_used, events: &ctx.events, msg_responses: &ctx.msg_responses };")
        lines.append(f"    echo_mut(\"{h['hid']}\", ctx.deps, &ctx.env, None, Some(obs), vec![{', '.join(echo)}])")
        lines.append("}")
        return lines

    def prelude(self):
        sv = self.sv
        return [
            "#![allow(unused, deprecated, clippy::all)]",
            f"use {sv}::cw_std::{{Addr, Binary, Coin, CosmosMsg, CustomMsg, CustomQuery, Empty, Reply, Response, StdError, StdResult, SubMsgResult, Uint128}};",
            f"use {sv}::ctx::{{ExecCtx, InstantiateCtx, MigrateCtx, QueryCtx, ReplyCtx, SudoCtx}};",
            "use svmon::prelude::*;",
        ]

    def override_src(self):
        """User-written entry points named by sv::override_entry_point: echo functions too."""
        p = self.p
        sv = self.sv
        M, Q = cm(p), cq(p)
        E = p["error"]
        out = []
        for ov in p.get("overrides", []):
            k, fn = ov["kind"], ov["fn"]
            hid = f"ov.{k}.{fn}"
            if k == "query":
                out += [f"pub fn {fn}(deps: {sv}::cw_std::Deps<{Q}>, env: {sv}::cw_std::Env, msg: svmon::OvMsg) -> Result<Binary, {E}> {{",
                        f"    let v: u32 = echo_query::<_, u32, {E}>(\"{hid}\", deps, &env, vec![(\"tag\", j(&msg.tag))])?;",
                        f"    Ok({sv}::cw_std::to_json_binary(&v)?)", "}"]
            elif k in ("instantiate", "exec"):
                out += [f"pub fn {fn}(deps: {sv}::cw_std::DepsMut<{Q}>, env: {sv}::cw_std::Env, info: {sv}::cw_std::MessageInfo, msg: svmon::OvMsg) -> Result<Response<{M}>, {E}> {{",
                        f"    echo_mut(\"{hid}\", deps, &env, Some(&info), None, vec![(\"tag\", j(&msg.tag))])", "}"]
            elif k == "reply":
                out += [f"pub fn {fn}(deps: {sv}::cw_std::DepsMut<{Q}>, env: {sv}::cw_std::Env, msg: Reply) -> Result<Response<{M}>, {E}> {{",
                        f"    echo_mut(\"{hid}\", deps, &env, None, None, vec![(\"id\", j(&msg.id))])", "}"]
            else:
                out += [f"pub fn {fn}(deps: {sv}::cw_std::DepsMut<{Q}>, env: {sv}::cw_std::Env, msg: svmon::OvMsg) -> Result<Response<{M}>, {E}> {{",
                        f"    echo_mut(\"{hid}\", deps, &env, None, None, vec![(\"tag\", j(&msg.tag))])", "}"]
        return out

    def source(self, with_glue=True):
        lines = self.prelude()
        lines += self.p.get("pre_items", [])
        lines += self.override_src()
        for part in self.p["parts"][1:]:
            lines += self.iface_src(part)
        lines += self.contract_src()
        if with_glue:
            lines += self.glue()
        text = "\n".join(lines) + "\n"
        if self.p.get("shadow"):
            text = self._shadowed(text)
        return text

    SHADOW_MARK = "SHADOWTY_"
    PRELUDE_PATHS = {n: "cw_std" for n in ["Addr", "Binary", "Coin", "CosmosMsg", "CustomMsg", "CustomQuery", "Empty", "Reply", "Response", "StdError",
                                           "StdResult", "SubMsgResult", "Uint128"]}
    PRELUDE_PATHS.update({n: "ctx" for n in ["ExecCtx", "InstantiateCtx", "MigrateCtx", "QueryCtx", "ReplyCtx", "SudoCtx"]})

    def _shadowed(self, text):
        """The program imports user types under names of the framework's vocabulary (`use svmon::shadow::Empty;`).
        Every bare occurrence the renderer wrote means the framework's item and is spelled out as a full path;
        the user's type was rendered with a marker that is dropped last."""
        import re
        names = self.p["shadow"]
        head, body = text.split("use svmon::prelude::*;\n", 1)
        for n in names:
            if n in self.PRELUDE_PATHS:
                full = f"{self.sv}::{self.PRELUDE_PATHS[n]}::{n}"
                body = re.sub(r"(?<![:\w\"])" + n + r"\b", full, body)
                head = re.sub(r"(?<=[{ ])" + n + r", |, " + n + r"(?=})", "", head)
        head += "use svmon::prelude::*;\nuse svmon::shadow::{" + ", ".join(names) + "};\n"
        return (head + body).replace(self.SHADOW_MARK, "")

    # ---------------------------------------------------------- glue
    def msg_generics(self, part, kind):
        """Concrete types for the generic parameters the message type of (part, kind) carries."""
        from .spec import used_params
        names = (part.get("observed_generics") or {}).get(kind)
        if names is None:
            names = used_params(self.p, part, kind)
        if not names:
            return ""
        if part["id"] == "c":
            conc = {g["name"]: g["concrete"] for g in self.p.get("generics", [])}
        else:
            conc = dict(part.get("assoc_concrete", []))
            conc.update(part.get("special_params", {}))
        return "::<" + ", ".join(conc[n] for n in names) + ">"

    def msg_path(self, part, kind):
        g = self.msg_generics(part, kind)
        if part["id"] == "c":
            return f"sv::{MSG_OF[kind]}{g}"
        return f"{part['module']}::sv::{MSG_OF[kind]}{g}"

    def wrap_path(self, kind):
        gs = self.p.get("generics") or []
        g = ("::<" + ", ".join(self.conc) + ">") if gs else ""
        return f"sv::{WRAP_OF[kind]}{g}"

    def _deps(self, part, kind):
        """Expression for the deps handed to a part-level dispatch."""
        _, cquery = self.p["custom"]["msg"], self.p["custom"]["query"]
        _, pq = part_customs(self.p, part)
        base = "c.deps.as_ref()" if kind == "query" else "c.deps.as_mut()"
        if cquery and not pq:
            base += ".into_empty()"
        return base

    def _ctx_tuple(self, deps, kind):
        if kind in ("instantiate", "exec"):
            return f"({deps}, c.env.clone(), c.info.clone())"
        return f"({deps}, c.env.clone())"

    def glue(self):
        p = self.p
        sv = self.sv
        M, Q = cm(p), cq(p)
        arms = []

        def arm(op, body):
            arms.append(f"            \"{op}\" => {{ {body} }}")

        # canonical encodings per type
        for i, t in enumerate(p["types"]):
            arm(f"canon:{i}", f"canon_many::<{t.concrete}>(a)")
        arm("canon:resp", f"canon_many::<Response<{M}>>(a)")
        arm("typename", f"json!({{\"res\": {{\"ok\": std::any::type_name::<{self.ct.replace('::<', '<')}>()}}}})")
        arm("canon:resp_empty", "canon_many::<Response<Empty>>(a)")

        for part in p["parts"]:
            kinds = ["instantiate", "migrate"] + KINDS_ENUM if part["id"] == "c" else KINDS_ENUM
            for kind in kinds:
                hs = [h for h in part["handlers"] if h["kind"] == kind]
                if kind in ("instantiate", "migrate") and not hs:
                    continue
                mp = self.msg_path(part, kind)
                pid = part["id"]
                arm(f"parse:{pid}:{kind}", f"parse::<{mp}>(a)")
                conv = "bin_json" if kind == "query" else "resp_json"
                deps = self._deps(part, kind)
                arm(f"dispatch:{pid}:{kind}",
                    f"let mut c = ctx::<{Q}>(a); let r = (|| {{ let m: {mp} = dec(&c.doc)?; "
                    f"m.dispatch(&{self.ct}::new(), {self._ctx_tuple(deps, kind)}).map({conv}).map_err(herr) }})(); finish(r, &c)")
                if kind in KINDS_ENUM:
                    fn = EP_OF[kind] + "_messages"
                    modp = "sv" if pid == "c" else f"{part['module']}::sv"
                    arm(f"names:{pid}:{kind}", f"json!({{\"res\": {{\"ok\": {modp}::{fn}().to_vec()}}}})")
                for h in hs:
                    decls = " ".join(f"let a{i}: {self.cty(a['ti'])} = arg(a, {i});" for i, a in enumerate(h["args"]))
                    if kind in ("instantiate", "migrate"):
                        lit = f"{mp} {{ " + ", ".join(f"{a['name']}: a{i}.clone()" for i, a in enumerate(h["args"])) + " }"
                        ctor = f"Some({mp}::new(" + ", ".join(f"a{i}" for i in range(len(h["args"]))) + "))"
                    else:
                        v = T.variant_ident(h["name"])
                        lit = f"{mp}::{v} {{ " + ", ".join(f"{a['name']}: a{i}.clone()" for i, a in enumerate(h["args"])) + " }"
                        if h["safe"]:
                            ctor = f"Some({mp}::{h['name']}(" + ", ".join(f"a{i}" for i in range(len(h["args"]))) + "))"
                        else:
                            ctor = f"None::<{mp}>"
                    arm(f"build:{h['hid']}",
                        f"{decls} let lit = {lit}; let ctor = {ctor}; "
                        "json!({\"res\": {\"ok\": {\"literal\": j(&lit), \"ctor\": ctor.as_ref().map(j), "
                        "\"eq\": ctor.as_ref().map(|c| c == &lit), \"debug\": format!(\"{:?}\", lit)}}})")

        for kind in KINDS_ENUM:
            w = self.wrap_path(kind)
            conv = "bin_json" if kind == "query" else "resp_json"
            deps = "c.deps.as_ref()" if kind == "query" else "c.deps.as_mut()"
            arm(f"parsew:{kind}", f"parse::<{w}>(a)")
            arm(f"dispatchw:{kind}",
                f"let mut c = ctx::<{Q}>(a); let r = (|| {{ let m: {w} = dec(&c.doc)?; "
                f"m.dispatch(&{self.ct}::new(), {self._ctx_tuple(deps, kind)}).map({conv}).map_err(herr) }})(); finish(r, &c)")

        # entry points and multitest Contract impl
        eps = self.entry_point_kinds()
        for kind in eps:
            ep = EP_OF[kind]
            conv = "bin_json" if kind == "query" else "resp_json"
            deps = "c.deps.as_ref()" if kind == "query" else "c.deps.as_mut()"
            if kind in ("instantiate", "exec"):
                call = f"entry_points::{ep}({deps}, c.env.clone(), c.info.clone(), m)"
            else:
                call = f"entry_points::{ep}({deps}, c.env.clone(), m)"
            if kind == "reply":
                getm = "let m: Reply = svmon::serde_json::from_value(a[\"reply\"].clone()).expect(\"reply\");"
            else:
                getm = "let m = dec(&c.doc)?;"
            arm(f"ep:{ep}",
                f"let mut c = ctx::<{Q}>(a); let r = (|| {{ {getm} {call}.map({conv}).map_err(herr) }})(); finish(r, &c)")
        for kind in ["instantiate", "exec", "query", "sudo", "migrate", "reply"]:
            ep = EP_OF[kind]
            conv = "bin_json" if kind == "query" else "resp_json"
            deps = "c.deps.as_ref()" if kind == "query" else "c.deps.as_mut()"
            tr = f"{sv}::cw_multi_test::Contract::<{M}, {Q}>"
            if kind == "reply":
                call = f"{tr}::reply(&k, {deps}, c.env.clone(), svmon::serde_json::from_value(a[\"reply\"].clone()).expect(\"reply\"))"
            elif kind in ("instantiate", "exec"):
                call = f"{tr}::{ep}(&k, {deps}, c.env.clone(), c.info.clone(), c.doc.clone())"
            else:
                call = f"{tr}::{ep}(&k, {deps}, c.env.clone(), c.doc.clone())"
            arm(f"mtc:{ep}",
                f"let mut c = ctx::<{Q}>(a); let k = {self.ct}::new(); let r = {call}.map({conv}).map_err(aerr); finish(r, &c)")

        arms_before = len(arms)
        self.helper_arms(arm)
        self.reply_arms(arm)
        self.mt_arms(arm)
        arms += self.extra_arms()
        lines = [
            "pub struct P;",
            "impl svmon::server::Prog for P {",
            f"    fn name(&self) -> &'static str {{ \"{p['name']}\" }}",
            "    fn call(&self, op: &str, a: &svmon::serde_json::Value, st: &mut svmon::mt::State) -> Option<svmon::serde_json::Value> {",
            "        use svmon::ops::*;",
            "        use svmon::serde_json::json;",
            "        Some(match op {",
        ]
        lines += arms
        lines += ["            _ => return None,", "        })", "    }", "}"]
        return lines

    def alt_concretes(self):
        return {g["name"]: ("bool" if g["concrete"] == "svmon::Pt" else "svmon::Pt") for g in self.p.get("generics", [])}

    def alt_spelling(self, t):
        """The type as the contract impl spells it, with every type parameter replaced by its alternative concrete type."""
        import re
        alt = self.alt_concretes()
        return re.sub(r"(?<![:\w])(" + "|".join(map(re.escape, alt)) + r")\b", lambda m: alt[m.group(1)], t.rust) if alt else t.concrete

    def entry_point_kinds(self):
        p = self.p
        ks = ["instantiate", "exec", "query", "sudo"]
        if any(h["kind"] == "migrate" for h in p["parts"][0]["handlers"]):
            ks.append("migrate")
        if any(h["kind"] == "reply" for h in p["parts"][0]["handlers"]):
            ks.append("reply")
        ov = {o["kind"] for o in p.get("overrides", [])}
        return [k for k in ks if k not in ov]

    def extra_arms(self):
        return []

    def reply_arms(self, arm):
        p = self.p
        if not p.get("reply_table"):
            return
        sv = self.sv
        M, Q = cm(p), cq(p)
        tb = p["reply_table"]
        ids = ", ".join(f"\"{n}\": sv::{n.upper()}_REPLY_ID" for n in tb["names"])
        arm("reply_ids", f"json!({{\"res\": {{\"ok\": {{ {ids} }} }} }})")
        arm("dispatch_reply",
            f"let mut c = ctx::<{Q}>(a); let rep: Reply = svmon::serde_json::from_value(a[\"reply\"].clone()).expect(\"reply\"); "
            f"let r = sv::dispatch_reply(c.deps.as_mut(), c.env.clone(), rep, {self.ct}::new()).map(resp_json).map_err(herr); finish(r, &c)")
        for n, info in tb["names"].items():
            if info["payload"] == "raw":
                decls = "let a0: Binary = arg(a, 0);"
                args = "a0"
            else:
                decls = " ".join(f"let a{i}: {self.cty(ti)} = arg(a, {i});" for i, ti in enumerate(info["payload"]))
                args = ", ".join(f"a{i}" for i in range(len(info["payload"])))
            for recv, ty in (("submsg", f"{sv}::cw_std::SubMsg<{M}>"), ("wasm", f"{sv}::cw_std::WasmMsg"), ("cosmos", f"{sv}::cw_std::CosmosMsg<{M}>")):
                arm(f"builder:{n}:{recv}",
                    f"{decls} let recv: {ty} = svmon::serde_json::from_value(a[\"recv\"].clone()).expect(\"recv\"); "
                    f"let r = <{ty} as sv::SubMsgMethods<{M}>>::{n}(recv, {args}).map(|m| svmon::serde_json::to_value(&m).unwrap()).map_err(herr); finish_plain(r)")

    def mt_arms(self, arm):
        """Proxy side of the multitest equivalence monitor (C12)."""
        p = self.p
        sv = self.sv
        M, Q = cm(p), cq(p)
        pn = p["name"]
        BA = f"{sv}::cw_multi_test::BasicApp<{M}, {Q}>"
        CID = f"sv::mt::CodeId<'static, {self.ct}, {BA}>"
        app = f"let app = st.app::<{M}, {Q}>(a);"
        arm("mt:store", f"{app} let cid: {CID} = sv::mt::CodeId::store_code(app); let id = cid.code_id(); "
            f"st.any.insert(format!(\"cid:{{}}:{pn}:{{}}\", a[\"world\"], id), Box::new(cid)); svmon::mt::ok(json!({{\"code_id\": id}}))")
        arm("mt:store_raw", f"{app} let id = app.app_mut().store_code(Box::new({self.ct}::new())); svmon::mt::ok(json!({{\"code_id\": id}}))")
        inst = [h for h in p["parts"][0]["handlers"] if h["kind"] == "instantiate"][0]
        decls = " ".join(f"let a{i}: {self.cty(a['ti'])} = arg(a, {i});" for i, a in enumerate(inst["args"]))
        call_args = ", ".join(f"a{i}" for i in range(len(inst["args"])))
        arm("mtp:instantiate",
            f"{decls} let key = format!(\"cid:{{}}:{pn}:{{}}\", a[\"world\"], a[\"code_id\"]); "
            f"let cid = st.any.get(&key).expect(\"HARNESS: code id\").downcast_ref::<{CID}>().expect(\"HARNESS: cid type\"); "
            "svmon::set_plan(svmon::plan_from_json(&a[\"plan\"])); "
            "let funds = coins_of(&a[\"funds\"]); let salt = a[\"salt\"].as_str().map(|s| Binary::from_base64(s).unwrap().to_vec()); "
            "let sender = Addr::unchecked(a[\"sender\"].as_str().unwrap()); "
            f"let mut b = cid.instantiate({call_args}); "
            # option setters may be called repeatedly: earlier values are given in *_seq, the last one wins
            "let labels: Vec<String> = a[\"label_seq\"].as_array().map(|l| l.iter().filter_map(|x| x.as_str().map(str::to_owned)).collect()).unwrap_or_default(); "
            "for l in labels.iter() { b = b.with_label(l.as_str()); } "
            "if let Some(seq) = a[\"admin_seq\"].as_array() { for x in seq { b = b.with_admin(x.as_str()); } } "
            "let fseq: Vec<Vec<Coin>> = a[\"funds_seq\"].as_array().map(|l| l.iter().map(coins_of).collect()).unwrap_or_default(); "
            "for f in fseq.iter() { b = b.with_funds(f.as_slice()); } "
            "if let Some(l) = a[\"label\"].as_str() { b = b.with_label(l); } "
            "if let Some(ad) = a[\"admin\"].as_str() { b = b.with_admin(ad); } else if a[\"admin_seq\"].is_array() { b = b.with_admin(None); } "
            "if !a[\"funds\"].is_null() { b = b.with_funds(&funds); } "
            "if let Some(s) = salt.as_ref() { b = b.with_salt(s.as_slice()); } "
            "match b.call(&sender) { Ok(px) => svmon::mt::ok(json!({\"addr\": px.contract_addr})), Err(e) => svmon::mt::err_described(e) }")
        for part in p["parts"]:
            if part["id"] == "c":
                use = f"use sv::mt::{self.cid}Proxy as _;"
            else:
                use = f"use {part['module']}::sv::mt::{part['trait']}Proxy as _;"
            for h in part["handlers"]:
                if not h["safe"] or h["kind"] not in ("exec", "query", "sudo", "migrate"):
                    continue
                decls = " ".join(f"let a{i}: {self.cty(a['ti'])} = arg(a, {i});" for i, a in enumerate(h["args"]))
                call_args = ", ".join(f"a{i}" for i in range(len(h["args"])))
                pre = (f"{use} {app} {decls} svmon::set_plan(svmon::plan_from_json(&a[\"plan\"])); "
                       f"let px = {sv}::multitest::Proxy::<{BA}, {self.ct}>::new(Addr::unchecked(a[\"addr\"].as_str().unwrap()), app); ")
                if h["kind"] == "exec":
                    body = ("let funds = coins_of(&a[\"funds\"]); let sender = Addr::unchecked(a[\"sender\"].as_str().unwrap()); "
                            f"let b = px.{h['name']}({call_args}); let b = if a[\"funds\"].is_null() {{ b }} else {{ b.with_funds(&funds) }}; "
                            "match b.call(&sender) { Ok(r) => svmon::mt::ok(svmon::mt::app_response_json(&r)), Err(e) => svmon::mt::err_described(e) }")
                elif h["kind"] == "query":
                    body = (f"match px.{h['name']}({call_args}) {{ Ok(v) => svmon::mt::ok(json!({{\"text\": j(&v)}})), Err(e) => svmon::mt::err_described(e) }}")
                elif h["kind"] == "sudo":
                    body = (f"match px.{h['name']}({call_args}) {{ Ok(r) => svmon::mt::ok(svmon::mt::app_response_json(&r)), Err(e) => svmon::mt::err_described(e) }}")
                else:
                    body = ("let sender = Addr::unchecked(a[\"sender\"].as_str().unwrap()); "
                            f"match px.{h['name']}({call_args}).call(&sender, a[\"new_code_id\"].as_u64().unwrap()) {{ Ok(r) => svmon::mt::ok(svmon::mt::app_response_json(&r)), Err(e) => svmon::mt::err_described(e) }}")
                arm(f"mtp:{h['hid']}", pre + body)

    def dyn_iface(self, part):
        """`dyn Trait<Error = .., assoc..>` naming the interface without a contract type."""
        p = self.p
        assoc = [f"Error = {part['error']}"]
        if part["custom_mode"] == "assoc":
            assoc += [f"ExecC = {cm(p)}", f"QueryC = {cq(p)}"]
        for (n, t) in part.get("assoc_concrete", part.get("assoc", [])):
            assoc.append(f"{n} = {t}")
        return f"dyn {part['module']}::{part['trait']}<{', '.join(assoc)}>"

    def helper_arms(self, arm):
        """Glue for schemas (C16), remote handles (C20) and communication helpers (C10)."""
        p = self.p
        sv = self.sv
        M, Q = cm(p), cq(p)
        # ---- C16
        for i, t in enumerate(p["types"]):
            arm(f"schema_ty:{i}", f"cw_schema_json::<{t.concrete}>()")
        for part in p["parts"]:
            arm(f"schemas:{part['id']}", f"schemas::<{self.msg_path(part, 'query')}>()")
            arm(f"schema_for:{part['id']}", f"schema_json::<{self.msg_path(part, 'query')}>()")
        arm("schemas:w", f"schemas::<{self.wrap_path('query')}>()")
        if self.gnames:
            # a second instantiation of the same generic contract in the same process (C16: every instantiation has its own table)
            alt = self.alt_concretes()
            lt = ["'static"] if p.get("lifetime") else []
            arm("schemas:w:alt", f"schemas::<sv::ContractQueryMsg::<{', '.join(lt + [alt[n] for n in self.gnames])}>>()")
            for i, t in enumerate(p["types"]):
                arm(f"schema_ty_alt:{i}", f"cw_schema_json::<{self.alt_spelling(t)}>()")
        for kind in KINDS_ENUM:
            arm(f"schema_for:w:{kind}", f"schema_json::<{self.wrap_path(kind)}>()")
            for part in p["parts"]:
                arm(f"schema_for:{part['id']}:{kind}", f"schema_json::<{self.msg_path(part, kind)}>()")
        # ---- C20
        arm("remote:c", f"remote_probe::<{self.ct}>(a)")
        rts = [f"{sv}::types::Remote<'static, {self.ct}>"] + [f"{sv}::types::Remote<'static, {self.dyn_iface(pt)}>" for pt in p["parts"][1:]]
        arm("remote_doc", f"schema_json::<({', '.join(rts)},)>()")
        for part in p["parts"][1:]:
            arm(f"remote:{part['id']}", f"remote_probe::<{self.dyn_iface(part)}>(a)")
        # ---- C10 executors / queriers
        for part in p["parts"]:
            pid = part["id"]
            if pid == "c":
                targets = [("c", self.ct, "sv")]
            else:
                targets = [("c", self.ct, f"{part['module']}::sv"), ("dyn", self.dyn_iface(part), f"{part['module']}::sv")]
            for h in part["handlers"]:
                if not h["safe"] or h["kind"] not in ("exec", "query"):
                    continue
                decls = " ".join(f"let a{i}: {self.cty(a['ti'])} = arg(a, {i});" for i, a in enumerate(h["args"]))
                call_args = ", ".join(f"a{i}" for i in range(len(h["args"])))
                for tname, tty, modp in targets:
                    for own in ("owned", "borrowed"):
                        mk = (f"let remote = {sv}::types::Remote::<{tty}>::new(addr.clone());" if own == "owned"
                              else f"let remote = {sv}::types::Remote::<{tty}>::borrowed(&addr);")
                        if h["kind"] == "exec":
                            arm(f"exec_helper:{h['hid']}:{tname}:{own}",
                                f"use {modp}::Executor as _; {decls} let addr = Addr::unchecked(a[\"addr\"].as_str().unwrap()); {mk} "
                                f"let b = remote.executor(); let b = if a[\"funds\"].is_null() {{ b }} else {{ b.with_funds(coins_of(&a[\"funds\"])) }}; "
                                f"let r = b.{h['name']}({call_args}).map(|x| wasm_json(x.build())).map_err(herr); finish_plain(r)")
                        else:
                            deps = "c.deps.as_ref()"
                            arm(f"query_helper:{h['hid']}:{tname}:{own}",
                                f"use {modp}::Querier as _; {decls} let addr = Addr::unchecked(a[\"addr\"].as_str().unwrap()); {mk} "
                                f"let c = ctx::<{Q}>(a); let k = {self.ct}::new(); "
                                f"let rq = RecQuerier::new(|_addr, msg| {sv}::cw_multi_test::Contract::<{M}, {Q}>::query(&k, {deps}, c.env.clone(), msg.to_vec()).map_err(|e| format!(\"{{e:#}}\"))); "
                                f"let qw = {sv}::cw_std::QuerierWrapper::<{Q}>::new(&rq); "
                                f"let r = remote.querier(&qw).{h['name']}({call_args}).map(|v| json!({{\"value\": j(&v)}})).map_err(herr); "
                                f"let mut out = finish_plain(r); out[\"requests\"] = svmon::serde_json::Value::Array(rq.log.borrow().clone()); out")
        # ---- C10 instantiate builder
        inst = [h for h in p["parts"][0]["handlers"] if h["kind"] == "instantiate"][0]
        decls = " ".join(f"let a{i}: {self.cty(a['ti'])} = arg(a, {i});" for i, a in enumerate(inst["args"]))
        call_args = "".join(f", a{i}" for i in range(len(inst["args"])))
        snake = "".join(("_" + ch.lower()) if ch.isupper() and i else ch.lower() for i, ch in enumerate(self.cid))
        arm("inst_builder",
            f"use sv::{self.cid}InstantiateBuilder as _; {decls} "
            f"let r = {sv}::builder::instantiate::InstantiateBuilder::{snake}(a[\"code_id\"].as_u64().unwrap(){call_args}).map(|mut b| {{ "
            "if let Some(l) = a[\"label\"].as_str() { b = b.with_label(l); } "
            "if let Some(ad) = a[\"admin\"].as_str() { b = b.with_admin(ad.to_owned()); } "
            "if !a[\"funds\"].is_null() { b = b.with_funds(coins_of(&a[\"funds\"])); } "
            "match a[\"salt\"].as_str() { Some(s) => wasm_json(b.build2(Binary::from_base64(s).unwrap())), None => wasm_json(b.build()) } "
            "}).map_err(herr); finish_plain(r)")
