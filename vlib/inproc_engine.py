"""E-inproc: the macro implementations executed in-process (surface X) behind the
`verif-hook` feature of sylvia-derive.  Jobs are (id, macro, attr tokens, item source); the
harness (inproc/harness.rs) answers one JSON line per job."""
import concurrent.futures
import fcntl
import json
import os
import subprocess
import time

from . import corpus
from .framework import Inconclusive

HARNESS = os.path.join(corpus.VERIF, "inproc", "harness.rs")
FEATURES = "verif-hook,mt,cosmwasm_1_2"


_SYSROOT = None


def _sysroot_lib():
    global _SYSROOT
    if _SYSROOT is None:
        root = subprocess.run(["rustc", "--print", "sysroot"], cwd=corpus.REPO, stdout=subprocess.PIPE, text=True).stdout.strip()
        host = subprocess.run(["rustc", "-vV"], cwd=corpus.REPO, stdout=subprocess.PIPE, text=True).stdout
        triple = [l.split(": ")[1] for l in host.splitlines() if l.startswith("host: ")][0]
        _SYSROOT = os.path.join(root, "lib") + ":" + os.path.join(root, "lib", "rustlib", triple, "lib")
    return _SYSROOT


def build(ctx):
    """Builds sylvia-derive's unit-test binary with the hook on; returns its path."""
    tdir = os.path.join(corpus.WORK, ctx.label, "inproc_target")
    os.makedirs(tdir, exist_ok=True)
    lockf = open(os.path.join(corpus.WORK, ctx.label, ".lock_inproc"), "w")
    fcntl.flock(lockf, fcntl.LOCK_EX)
    try:
        t0 = time.time()
        env = dict(corpus.CARGO_ENV, CARGO_TARGET_DIR=tdir, SYLVIA_VERIF_HARNESS=HARNESS)
        p = subprocess.run(["cargo", "test", "--offline", "-p", "sylvia-derive", "--features", FEATURES, "--lib", "--no-run",
                            "--message-format=json", "-q"], cwd=corpus.REPO, env=env, stdout=subprocess.PIPE, stderr=subprocess.PIPE,
                           text=True, timeout=3600)
        exe = None
        errs = []
        for line in p.stdout.splitlines():
            try:
                m = json.loads(line)
            except ValueError:
                continue
            if m.get("reason") == "compiler-artifact" and m.get("executable") and m.get("target", {}).get("name") == "sylvia_derive":
                exe = m["executable"]
            if m.get("reason") == "compiler-message" and m["message"].get("level") == "error":
                errs.append(m["message"].get("rendered", "")[:800])
        if p.returncode != 0 or not exe:
            raise Inconclusive("E-inproc: hook build failed: " + (errs[0] if errs else p.stderr[-800:]))
        ctx.cov["inproc_build_s"] = round(time.time() - t0, 1)
        return exe
    finally:
        fcntl.flock(lockf, fcntl.LOCK_UN)
        lockf.close()


def run_jobs(ctx, label, jobs, shards=16, exe=None):
    """jobs: [(id, macro, attr or None, item source, want_view)] -> {id: result dict}"""
    exe = exe or build(ctx)
    d = os.path.join(corpus.WORK, ctx.label, "inproc", label)
    os.makedirs(os.path.join(d, "items"), exist_ok=True)
    lines = [[] for _ in range(shards)]
    for n, (jid, mac, attr, src, view) in enumerate(jobs):
        if mac == "file":
            path = src  # a real source file: the harness finds the annotated items itself
        else:
            path = os.path.join(d, "items", f"{jid}.rs")
            corpus.write_if_changed(path, src)
        a = (attr or "-").replace("\t", " ").replace("\n", " ")
        lines[n % shards].append(f"{jid}\t{mac}\t{a}\t{path}\t{'view' if view else 'noview'}")

    def run(i):
        if not lines[i]:
            return []
        jf = os.path.join(d, f"jobs_{i}.txt")
        of = os.path.join(d, f"out_{i}.jsonl")
        with open(jf, "w") as f:
            f.write("\n".join(lines[i]) + "\n")
        if os.path.exists(of):
            os.remove(of)
        env = dict(os.environ, SYLVIA_VERIF_JOBS=jf, SYLVIA_VERIF_OUT=of,
                   LD_LIBRARY_PATH=_sysroot_lib() + ":" + os.environ.get("LD_LIBRARY_PATH", ""))
        p = subprocess.run([exe, "verif_hook::verif_run", "--exact", "--nocapture", "--test-threads", "1"], env=env,
                           stdout=subprocess.PIPE, stderr=subprocess.PIPE, text=True, timeout=3600, cwd=os.path.join(corpus.REPO, "sylvia-derive"))
        if p.returncode != 0 or not os.path.exists(of):
            raise Inconclusive(f"E-inproc: harness run failed: {p.stdout[-400:]} {p.stderr[-400:]}")
        return [json.loads(l) for l in open(of)]
    out = {}
    with concurrent.futures.ThreadPoolExecutor(max_workers=shards) as ex:
        for rs in ex.map(run, range(shards)):
            for r in rs:
                if "harness_error" in r:
                    raise Inconclusive(f"E-inproc: {r['harness_error']}")
                if r.get("status") == "clean" and "output_parse_error" in r:
                    # the macro returned without a diagnostic but its output is not even a sequence of Rust items
                    r["status"] = "unparsable-output"
                    r["panic"] = r["output_parse_error"]
                out[r["id"]] = r
    missing = [j[0] for j in jobs if j[0] not in out]
    ctx.cov["inproc_expansions"] = ctx.cov.get("inproc_expansions", 0) + 2 * sum(1 for r in out.values() if r.get("status") != "file")
    if missing:
        raise Inconclusive(f"E-inproc: {len(missing)} jobs without a result, e.g. {missing[:3]}")
    return out
