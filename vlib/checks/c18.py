"""C18 — programs violating the documented constraints are rejected with a diagnostic."""
import json

from .. import inproc_engine, mutants, render, rustc_engine, spec


def item_range(module_src, item_text):
    """1-based [first, last] line numbers of `item_text` inside `module_src`."""
    pos = module_src.find(item_text)
    if pos < 0:
        return None
    first = module_src.count("\n", 0, pos) + 1
    last = first + item_text.count("\n")
    # the macro attributes written directly above belong to the item as well
    lines = module_src.split("\n")
    while first > 1 and lines[first - 2].strip().startswith("#["):
        first -= 1
    return first, last


def collect(ctx, n_hosts):
    """hosts and their mutants: [(id, rule, target, prog, keywords)]"""
    hosts, muts = [], []
    for i in range(n_hosts):
        rng = ctx.rng("c18", i)
        if i % 2 == 0:
            h = spec.gen_program(rng, f"h{i:03d}", n_ifaces=rng.choice([1, 2]))
            hosts.append(h)
            for rule, q, kw in mutants.contract_mutants(rng, h):
                muts.append((f"h{i:03d}_{rule}".replace("-", "_"), rule, "c", q, kw))
            for rule, q, pid, kw in mutants.iface_mutants(rng, h):
                muts.append((f"h{i:03d}_{rule}".replace("-", "_"), rule, pid, q, kw))
        else:
            h = mutants.reply_host(rng, f"h{i:03d}")
            hosts.append(h)
            for rule, q, kw in mutants.reply_mutants(rng, h):
                muts.append((f"h{i:03d}_{rule}".replace("-", "_"), rule, "c", q, kw))
    # entry points of generic contracts need one concrete type per type parameter
    for i in range(max(2, n_hosts // 4)):
        rng = ctx.rng("c18g", i)
        h = spec.gen_generic_program(rng, f"hg{i:03d}", n_generics=rng.choice([1, 2, 3]))
        hosts.append(h)
        import copy
        q = copy.deepcopy(h)
        gs = [g["concrete"] for g in h["generics"]]
        # a lifetime parameter of the contract takes part in the count (sylvia compares with all parameters of the impl)
        lt = ["'static"] if h.get("lifetime") else []
        q["entry_points_args"] = ("generics<" + ", ".join(lt + gs[:-1]) + ">") if len(lt + gs) > 1 else ""
        muts.append((f"hg{i:03d}_ep_too_few_generics", "entry-points-too-few-generics", "ep", q, ["Missing concrete types"]))
        q = copy.deepcopy(h)
        q["entry_points_args"] = "generics<" + ", ".join(lt + gs + ["u8"]) + ">"
        muts.append((f"hg{i:03d}_ep_too_many_generics", "entry-points-too-many-generics", "ep", q, ["Missing concrete types"]))
    return hosts, muts


def job_for(jid, prog, target):
    R = render.R(prog)
    if target == "ep":
        R.contract_src()
        first = R.contract_src()[1] if prog.get("generics") else ""
        import re
        m = re.search(r"entry_points\((.*)\)\]$", first)
        return (jid, "entry_points", m.group(1) if m else None, R.contract_item(True), False)
    if target == "c":
        return (jid, "contract", None, R.contract_item(), False)
    return (jid, "interface", None, R.iface_item(spec.part_by_id(prog, target)), False)


def run(ctx):
    ctx.rule = ("(1) in-process: every rule of the catalogue (41 rule-breaking edits: instantiate/migrate count, constructor, interface restrictions, reply-table conflicts, "
                "payload/data marker misuse, unknown attribute arguments) applied to generated hosts: the host expands clean, the mutant must be rejected by an emitted diagnostic "
                "(a panic does not count); (2) in-process, exhaustive: every ordered reply table of <=3 methods over two names x three outcomes x four payload signatures (different arity, different type, same type constructor with different arguments) against "
                "an accept/reject model; (3) rustc: a batch of mutants, each must produce an error with the rule's keyword whose primary span lies inside the mutated item of its "
                "own file, hosts and a sample of accepted tables must compile; non-trivial+distinct = distinct (rule, host) mutants rejected as required + distinct rejected tables")
    ctx.assumptions = ["diagnostics are checked for file, enclosing item and a keyword of the message, not for exact wording or column",
                       "the entry_points `generics<..>` rule is exercised with the generic programs of C15"]
    n_hosts = ctx.pick(8, 60)
    hosts, muts = collect(ctx, n_hosts)
    exe = inproc_engine.build(ctx)
    jobs = []
    for h in hosts:
        jobs.append(job_for(h["name"] + "_host_c", h, "c"))
        for part in h["parts"][1:]:
            jobs.append(job_for(f"{h['name']}_host_{part['id']}", h, part["id"]))
    for jid, rule, target, q, kw in muts:
        jobs.append(job_for(jid, q, target))
    res = inproc_engine.run_jobs(ctx, "c18", jobs, exe=exe)
    for h in hosts:
        for t in ["c"] + [p["id"] for p in h["parts"][1:]]:
            r = res[f"{h['name']}_host_{t}"]
            ctx.ev()
            if r["status"] != "clean":
                ctx.violate("host-rejected", f"valid host {h['name']} part {t} expands with status {r['status']} {r.get('panic','')[:80]}",
                            {"host": h["name"], "part": t, "result": r, "item": job_for("x", h, t)[3]})
    rules_seen = set()
    for jid, rule, target, q, kw in muts:
        r = res[jid]
        ctx.ev()
        rules_seen.add(rule)
        d = {"rule": rule, "job": jid, "status": r["status"], "panic": r.get("panic"), "item": job_for("x", q, target)[3]}
        if r["status"] == "clean":
            ctx.violate(f"accepted:{rule}", f"program breaking rule `{rule}` expands without any diagnostic", d)
        elif r["status"] == "crashed":
            ctx.violate(f"panicked:{rule}", f"program breaking rule `{rule}` makes the macro panic instead of emitting a diagnostic: {r.get('panic','')[:100]}", d)
        else:
            ctx.nontrivial(["inproc", rule, jid])
            ctx.count("inproc_mutants_rejected")
    # (2) exhaustive reply tables
    tjobs, tmeta = [], {}
    maxm = 3
    for i, combo in enumerate(mutants.small_tables(maxm)):
        if ctx.quick and len(combo) == 3 and (i % 11):
            continue  # quick: every table of <=2 methods, every 11th table of 3 methods
        jid = f"t{i:05d}"
        tjobs.append((jid, "contract", None, mutants.table_program(combo, i), False))
        tmeta[jid] = combo
    tres = inproc_engine.run_jobs(ctx, "c18t", tjobs, exe=exe)
    acc = rej = 0
    for jid, combo in tmeta.items():
        r = tres[jid]
        ctx.ev()
        want = mutants.table_model(combo)
        d = {"table": [list(map(str, m)) for m in combo], "model_accepts": want, "status": r["status"], "panic": r.get("panic"), "item": mutants.table_program(combo, 0)}
        if r["status"] == "crashed":
            ctx.violate("table-panic", f"reply table {d['table']} makes the macro panic: {r.get('panic','')[:100]}", d)
        elif want and r["status"] != "clean":
            ctx.violate("table-valid-rejected", f"valid reply table {d['table']} is rejected", d)
        elif not want and r["status"] == "clean":
            ctx.violate("table-invalid-accepted", f"invalid reply table {d['table']} is accepted", d)
        else:
            if want:
                acc += 1
            else:
                rej += 1
                ctx.nontrivial(["table", d["table"]])
    ctx.cov["tables_accepted"] = acc
    ctx.cov["tables_rejected"] = rej
    ctx.cov["tables_exhaustive_upto_methods"] = 2 if ctx.quick else 3
    ctx.exhaustive = True
    # (3) rustc diagnostics
    n_rc = ctx.pick(45, 260)
    # each rule at least once, then the rest in order
    chosen, seen = [], set()
    for m in muts:
        if m[1] not in seen:
            seen.add(m[1])
            chosen.append(m)
    for m in muts:
        if len(chosen) >= n_rc:
            break
        if m not in chosen:
            chosen.append(m)
    mods, meta = {}, {}
    for jid, rule, target, q, kw in chosen:
        R = render.R(q)
        src = R.source(with_glue=False)
        item = R._contract_item if target in ("c", "ep") else R._iface_items[target]
        mods[jid] = src
        meta[jid] = ("mutant", rule, kw, item_range(src, item))
    for h in hosts[:ctx.pick(6, 40)]:
        mods[h["name"] + "_host"] = render.R(h).source(with_glue=False)
        meta[h["name"] + "_host"] = ("host", None, None, None)
    k = 0
    pre = "\n".join(render.R(hosts[0]).prelude()) + "\npub struct Contract;\n#[sylvia::contract]\n"
    for i, combo in enumerate(mutants.small_tables(2)):
        if mutants.table_model(combo) and i % ctx.pick(29, 7) == 0:
            mods[f"tab{i:04d}"] = pre + mutants.table_program(combo, i) + "\n"
            meta[f"tab{i:04d}"] = ("table", None, None, None)
    vr = rustc_engine.verdicts(ctx, "c18", mods)
    for m, diags in vr.items():
        kind, rule, kw, rng_ = meta[m]
        ctx.ev()
        if kind != "mutant":
            if diags:
                ctx.violate(f"rustc-valid-rejected:{kind}", f"valid {kind} program {m} does not compile: {diags[0]['message'][:120]}",
                            {"module": m, "diagnostics": diags[:3], "source": mods[m]})
            ctx.count("rustc_valid_" + kind)
            continue
        d = {"module": m, "rule": rule, "keywords": kw, "item_lines": rng_, "diagnostics": [{k: x[k] for k in ("file", "line", "message", "notes")} for x in diags[:6]]}
        if not diags:
            ctx.violate(f"rustc-accepted:{rule}", f"program breaking rule `{rule}` compiles", dict(d, source=mods[m]))
            continue
        hit = [x for x in diags if any(k in ((x["message"] or "") + " " + x.get("notes", "")) for k in kw)]
        if not hit:
            ctx.violate(f"rustc-no-diagnostic:{rule}", f"`{rule}`: fails to compile but without the rule's diagnostic; first error: {diags[0]['message'][:120]}", d)
            continue
        inside = [x for x in hit if rng_ and x.get("line") and rng_[0] <= x["line"] <= rng_[1]]
        if not inside:
            ctx.violate(f"rustc-span-elsewhere:{rule}", f"`{rule}`: diagnostic does not point into the offending item (lines {rng_}): reported at line {hit[0].get('line')}", d)
            continue
        ctx.nontrivial(["rustc", rule, m])
        ctx.count("rustc_mutants_diagnosed")
        if len(ctx.samples) < 6:
            ctx.sample({"rule": rule, "module": m, "rustc_error": inside[0]["message"], "line": inside[0]["line"], "offending_item_lines": rng_})
    ctx.cov["rules_exercised"] = sorted(rules_seen)
