"""Shared helpers of the reply monitors (C07-C09)."""
import base64
import json

from ..spec import reply_method_for
from .common import dumps


def b64(b):
    return base64.b64encode(b).decode()


def varint(n):
    out = bytearray()
    while True:
        b = n & 0x7f
        n >>= 7
        if n:
            out.append(b | 0x80)
        else:
            out.append(b)
            return bytes(out)


def pb_field(num, payload):
    """length-delimited protobuf field — independent 5-line encoder (not cw_utils)."""
    return bytes([(num << 3) | 2]) + varint(len(payload)) + payload


def exec_envelope(inner):
    """MsgExecuteContractResponse{data = 1}; proto3 omits an empty field."""
    return pb_field(1, inner) if inner else b""


def inst_envelope(addr, inner):
    out = pb_field(1, addr.encode())
    if inner:
        out += pb_field(2, inner)
    return out


def rand_bytes(rng, n=None):
    n = rng.choice([0, 1, 3, 16, 200]) if n is None else n
    return bytes(rng.randrange(256) for _ in range(n))


def draw_events(rng):
    return [{"type": rng.choice(["wasm", "transfer", "e"]) + str(i),
             "attributes": [{"key": "k" + str(j), "value": str(rng.randrange(1000))} for j in range(rng.choice([0, 1, 3]))]}
            for i in range(rng.choice([0, 1, 2, 3]))]


def draw_msg_responses(rng):
    return [{"type_url": "/cosmwasm.wasm.v1.Msg" + str(i), "value": b64(rand_bytes(rng))} for i in range(rng.choice([0, 0, 1, 2]))]


def draw_payload(rng, prog, canon, sig, pnames):
    """(payload base64, expected echoed args [[name, json text]...], arg texts)"""
    if sig == "raw":
        raw = rand_bytes(rng)
        return b64(raw), [["payload", dumps(b64(raw))]], [dumps(b64(raw))]
    texts, cts = [], []
    for ti in sig:
        t = dumps(prog["types"][ti].gen(rng))
        texts.append(t)
        cts.append(canon.one(ti, t)["ok"])
    body = cts[0] if len(cts) == 1 else "[" + ",".join(cts) + "]"
    return b64(body.encode()), [[n, c] for n, c in zip(pnames, cts)], texts


def payload_for_name(r, rng, prog, canon, name, info, pnames):
    """Payload bytes as the generated builder encodes them, expected echoed args, builder arg texts.
    For names whose methods disagree on `sv::payload(raw)` the encoding is whatever the builder chooses:
    it is obtained from the builder itself (only the round trip is pinned)."""
    if not info.get("mixed_raw"):
        return draw_payload(rng, prog, canon, info["payload"], pnames)
    raw = rand_bytes(rng)
    texts = [dumps(b64(raw))]
    o = r.call({"prog": prog["name"], "op": f"builder:{name}:wasm", "args": texts,
                "recv": {"execute": {"contract_addr": "c", "msg": "", "funds": []}}})
    sm = o["res"]["ok"]
    return sm["payload"], [["payload", dumps(b64(raw))]], texts


def wellformed_data(rng, prog, canon, m, allow_none=True):
    """(data b64 or None, expected echo text) for a success method's data mode."""
    mode = m["data"]
    if mode is None:
        d = rng.choice([None, b64(rand_bytes(rng))])
        return d, None
    if mode in ("raw", "raw_opt"):
        if mode == "raw_opt" and allow_none and rng.random() < 0.4:
            return None, "null"
        raw = rand_bytes(rng)
        return b64(raw), dumps(b64(raw))
    if mode in ("typed", "opt"):
        if mode == "opt" and allow_none and rng.random() < 0.4:
            return None, "null"
        t = dumps(prog["types"][m["data_ti"]].gen(rng))
        c = canon.one(m["data_ti"], t)["ok"]
        return b64(exec_envelope(c.encode())), c
    if mode == "instantiate_opt" and allow_none and rng.random() < 0.4:
        return None, "null"
    addr = "contract" + str(rng.randrange(10**6))
    inner = rng.choice([b"", rand_bytes(rng, 7)])
    return b64(inst_envelope(addr, inner)), dumps([addr, b64(inner) if inner else None])


def ids_of(r, prog):
    return r.call({"prog": prog["name"], "op": "reply_ids"})["res"]["ok"]
