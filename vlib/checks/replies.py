"""Shared helpers of the reply monitors (C07-C09)."""
import base64
import json

from ..spec import reply_method_for
from .common import dumps


def b64(b):
    return base64.b64encode(b).decode()


def varint(n):
    out = bytearray()
    while True:
        b = n & 0x7f
        n >>= 7
        if n:
            out.append(b | 0x80)
        else:
            out.append(b)
            return bytes(out)


def pb_field(num, payload):
    """length-delimited protobuf field — independent 5-line encoder (not cw_utils)."""
    return bytes([(num << 3) | 2]) + varint(len(payload)) + payload


def exec_envelope(inner):
    """MsgExecuteContractResponse{data = 1}; proto3 omits an empty field."""
    return pb_field(1, inner) if inner else b""


def inst_envelope(addr, inner):
    out = pb_field(1, addr.encode())
    if inner:
        out += pb_field(2, inner)
    return out


def rand_bytes(rng, n=None):
    n = rng.choice([0, 1, 3, 16, 200]) if n is None else n
    return bytes(rng.randrange(256) for _ in range(n))


def draw_events(rng):
    # (keys starting with `_` are the ones the chain itself adds to every contract event: they are part of the events too)
    return [{"type": rng.choice(["wasm", "transfer", "e", "execute", "instantiate", "wasm-transfer_done", "wasm-", "wasm-wasm-x"]) + (str(i) if rng.random() < 0.7 else ""),
             "attributes": [{"key": rng.choice(["k", "k", "_contract_address", "_x", "_"]) + (str(j) if rng.random() < 0.6 else ""), "value": str(rng.randrange(1000))}
                            for j in range(rng.choice([0, 1, 3]))]}
            for i in range(rng.choice([0, 1, 2, 3]))]


def draw_msg_responses(rng):
    return [{"type_url": "/cosmwasm.wasm.v1.Msg" + str(i), "value": b64(rand_bytes(rng))} for i in range(rng.choice([0, 0, 1, 2]))]


def draw_payload(rng, prog, canon, sig, pnames):
    """(payload base64, expected echoed args [[name, json text]...], arg texts)"""
    if sig == "raw":
        raw = rand_bytes(rng)
        if rng.random() < 0.4:
            # raw bytes that happen to be JSON, in particular a JSON string of valid base64: still delivered byte for byte
            raw = rng.choice([b'"withdraw"', b'"abcd"', b'"QUJD"', b'"AAAA"', b'""', b'{"a":1}', b'[1,2]', b'null', b'"c3Rha2U="', b' "stake" '])
        return b64(raw), [["payload", dumps(b64(raw))]], [dumps(b64(raw))]
    texts, cts = [], []
    for ti in sig:
        t = dumps(prog["types"][ti].gen(rng))
        if len(sig) == 1 and rng.random() < 0.35:
            # a one-element array whose element is itself a value of the type (`[[]]` for Vec<Vec<_>>, `[null]` for
            # Option<Vec<Option<_>>>): indistinguishable from a 1-tuple around the element for a lenient decoder
            for x in rng.sample(["[]", "null", "[[]]", "[null]"], 4):
                if "ok" in canon.one(ti, x) and "ok" in canon.one(ti, "[" + x + "]") and canon.one(ti, x)["ok"] != canon.one(ti, "[" + x + "]")["ok"]:
                    t = "[" + x + "]"
                    break
        texts.append(t)
        cts.append(canon.one(ti, t)["ok"])
    body = cts[0] if len(cts) == 1 else "[" + ",".join(cts) + "]"
    return b64(body.encode()), [[n, c] for n, c in zip(pnames, cts)], texts


def payload_for_name(r, rng, prog, canon, name, info, pnames):
    """Payload bytes as the statement of C08 predicts them, expected echoed args, builder arg texts."""
    return draw_payload(rng, prog, canon, info["payload"], pnames)


def wellformed_data(rng, prog, canon, m, allow_none=True):
    """(data b64 or None, expected echo text) for a success method's data mode."""
    mode = m["data"]
    if mode is None:
        d = rng.choice([None, b64(rand_bytes(rng))])
        return d, None
    if mode in ("raw", "raw_opt"):
        if mode == "raw_opt" and allow_none and rng.random() < 0.4:
            return None, "null"
        raw = rand_bytes(rng)
        return b64(raw), dumps(b64(raw))
    if mode in ("typed", "opt"):
        if mode == "opt" and allow_none and rng.random() < 0.4:
            return None, "null"
        t = dumps(prog["types"][m["data_ti"]].gen(rng))
        c = canon.one(m["data_ti"], t)["ok"]
        return b64(exec_envelope(c.encode())), c
    if mode == "instantiate_opt" and allow_none and rng.random() < 0.4:
        return None, "null"
    addr = "contract" + str(rng.randrange(10**6))
    inner = rng.choice([b"", rand_bytes(rng, 7)])
    return b64(inst_envelope(addr, inner)), dumps([addr, b64(inner) if inner else None])


def ids_of(r, prog):
    return r.call({"prog": prog["name"], "op": "reply_ids"})["res"]["ok"]
