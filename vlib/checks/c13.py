"""C13 — the annotated source is passed through intact and expansion is deterministic."""
import copy
import glob
import os

from .. import corpus, families, families_extra, inproc_engine, render, spec

ITEM_ATTRS = ["allow(dead_code)", "cfg(all())", "doc = \" item level docs\"", "allow(clippy::too_many_arguments)", "deny(unsafe_code)"]
# foreign attributes whose path merely starts with `sv` / ends in a framework name
LOOKALIKE_ATTRS = ["sv::returns(u32)", "sv", "sv::tracing::instrument", "sv::mgs(exec)", "other::msg(exec)", "sv_msg(exec)", "sv::attrs(x)"]
FN_ATTRS = ["doc = \" Handler docs.\\n second line\"", "allow(unused_variables)", "must_use", "inline", "cfg(not(feature = \"verif_never\"))",
            "deprecated(note = \"old\")", "allow(clippy::needless_lifetimes)"]
PARAM_ATTRS = ["allow(unused)", "serde(default)", "cfg(all())", "serde(rename = \"renamed\")"]
BODY_ITEMS = [
    "fn inner(#[allow(unused)] z: u32, #[cfg(all())] w: u8) -> u32 { 1 }",
    "let _closure = |#[allow(unused_variables)] q: u8| 2u8;",
    "#[allow(unused)] let _nested_attr_stmt = 3;",
    "struct Local { #[allow(dead_code)] f: u8 }",
    "let _c2 = |#[cfg(all())] a: u32, #[cfg(all())] b: u32| a + b;",
]
IMPL_EXTRAS = [
    "pub fn helper_plain(&self, x: u32) -> u32 { x + 1 }",
    "/// documented helper\n    pub(crate) fn helper_attr_param(&self, #[allow(unused)] x: u32, #[cfg(all())] y: u8) -> u32 { 7 }",
    "const LIMIT: u32 = 7;",
    "fn helper_generic<'a, T: Clone>(t: &'a T) -> T where T: std::fmt::Debug { t.clone() }",
    "#[allow(dead_code)]\n    #[inline(always)]\n    pub fn helper_with_attrs() -> &'static str { \"x\" }",
    "pub fn helper_closure(&self) -> u32 { let f = |#[allow(unused)] a: u32| a * 2; f(2) }",
    "pub async fn helper_async(&self) {}",
    "pub unsafe fn helper_unsafe(p: *const u8) -> u8 { *p }",
    # item-position macro invocations are members of the block like any other
    "helper_macro! { fn made_by_macro(&self) -> u32 { 1 } }",
    "some::path::make_items!(a, b);",
    "#[allow(dead_code)]\n    attr_macro_item![x];",
    "type Assoc = u32;",
]
TRAIT_EXTRAS = [
    "fn provided(&self) -> u32 { 1 }",
    "/// docs\n        fn provided_attr_param(&self, #[allow(unused)] x: u32) -> u32 { 2 }",
    "const K: u32 = 3;",
    "fn required_helper(&self, n: u8) -> u8;",
    "trait_items! { fn from_macro(&self); }",
]


def decorate(rng, p):
    p = copy.deepcopy(p) if False else p
    for part in p["parts"]:
        part["foreign_attrs"] = rng.sample(ITEM_ATTRS, rng.choice([0, 1, 2])) + rng.sample(LOOKALIKE_ATTRS[:3], rng.choice([0, 0, 1]))
        if part["foreign_attrs"] and rng.random() < 0.3:
            # the same foreign attribute written twice stays written twice
            j = rng.randrange(len(part["foreign_attrs"]))
            part["foreign_attrs"].insert(rng.randrange(len(part["foreign_attrs"]) + 1), part["foreign_attrs"][j])
        extras = IMPL_EXTRAS if part["id"] == "c" else TRAIT_EXTRAS
        part["extra_items"] = rng.sample(extras, rng.choice([1, 2, 3]))
        if part["id"] == "c":
            part["extra_items_first"] = rng.sample(extras, rng.choice([0, 1]))
        if rng.random() < 0.4:
            # inner attributes of the impl block / trait are part of the item
            part["inner_attrs"] = rng.sample(["#![allow(dead_code)]", "#![doc = \" inner docs\"]", "#![allow(clippy::all)]", "//! inner doc comment"], rng.choice([1, 2]))
        for h in part["handlers"]:
            if h["kind"] == "reply":
                continue
            h["foreign_attrs"] = rng.sample(FN_ATTRS, rng.choice([0, 0, 1, 2])) + rng.sample(LOOKALIKE_ATTRS, rng.choice([0, 0, 0, 1]))
            if h["foreign_attrs"] and rng.random() < 0.3:
                j = rng.randrange(len(h["foreign_attrs"]))
                h["foreign_attrs"].insert(rng.randrange(len(h["foreign_attrs"]) + 1), h["foreign_attrs"][j])
            if h["kind"] in ("exec", "query", "sudo"):
                h["sv_attrs"] = rng.sample(["serde(alias = \"al1\")", "serde(alias = \"al2\")", "doc = \"forwarded\"", "cfg_attr(all(), allow(dead_code))",
                                            "schemars(description = \"d\")"], rng.choice([0, 1, 2, 3, 4]))
                h["sv_attrs_above"] = rng.choice([0, 0, 1, 2])
            if part["id"] == "c" and rng.random() < 0.4:
                h["body_prefix"] = rng.sample(BODY_ITEMS, rng.choice([1, 2]))
                if rng.random() < 0.5:
                    h["body_prefix"].insert(0, rng.choice(["#![allow(unused_variables)]", "#![allow(unused)]", "#![doc = \" body docs\"]"]))
            for a in h["args"]:
                if rng.random() < 0.3:
                    a["attrs"] = rng.sample(PARAM_ATTRS, rng.choice([1, 2]))
    return p


def real_files():
    out = []
    for pat in ["sylvia/tests/*.rs", "sylvia/examples/*.rs", "sylvia/examples/**/*.rs", "examples/**/src/**/*.rs", "sylvia/tests/ui/**/*.rs"]:
        out += glob.glob(os.path.join(corpus.REPO, pat), recursive=True)
    return sorted(set(out))


def run(ctx):
    ctx.rule = ("generated impl blocks / traits decorated with foreign attributes, doc comments, helper methods (with attributed parameters), consts and nested generics, "
                "plus every #[contract]/#[interface]/#[entry_points] item of the real sources under sylvia/tests, sylvia/examples, examples/; each is expanded twice in one "
                "process and again in a second process; the first emitted item is compared with an independent syn-based stripper (framework attributes removed, parameter "
                "attributes removed on handler methods only); non-trivial+distinct = distinct inputs carrying foreign material whose pass-through was compared")
    ctx.assumptions = ["in-process expansion runs under cfg(test), where the crate alias is the constant `sylvia` (aliases: C19)",
                       "token-string comparison (whitespace-insensitive), spans are not compared"]
    rng = ctx.rng("c13")
    jobs, meta = [], {}
    n_gen = ctx.pick(120, 1500)
    k = 0
    while k < n_gen:
        prng = ctx.rng("c13", k)
        kind = prng.choice(["general", "general", "reply", "ep"])
        p = spec.gen_program(prng, f"d{k:04d}")
        if kind == "reply":
            spec.gen_reply_table(prng, p)
        elif kind == "ep":
            # a legacy reply method (`fn reply(&self, ctx: ReplyCtx, reply: Reply)`) and overridden entry points
            p = spec.gen_ep_config_program(prng, f"d{k:04d}", prng.sample(spec.ALL_EP_KINDS, prng.choice([0, 1, 2])), prng.random() < 0.5, "legacy", False)
        decorate(prng, p)
        R = render.R(p)
        jid = f"d{k:04d}"
        jobs.append((jid + "_c", "contract", None, R.contract_item(), False))
        meta[jid + "_c"] = ("generated", p)
        if k % 4 == 0:
            # the legacy argument form `#[contract(module = ..)]`: nothing is generated, the input is still stripped
            jobs.append((jid + "_l", "contract", "module = some::path", R.contract_item(), False))
            meta[jid + "_l"] = ("generated", p)
        jobs.append((jid + "_e", "entry_points", None, R.contract_item(True), False))
        meta[jid + "_e"] = ("generated", p)
        if k % 3 == 0:
            # the entry-point macro does not care how (or whether) the contract macro is spelled above the impl
            jobs.append((jid + "_e2", "entry_points", None, R.contract_item(False), False))
            meta[jid + "_e2"] = ("generated", p)
            jobs.append((jid + "_e3", "entry_points", None, "#[sylvia_contract]\n" + R.contract_item(False), False))
            meta[jid + "_e3"] = ("generated", p)
        for part in p["parts"][1:]:
            jobs.append((f"{jid}_{part['id']}", "interface", None, R.iface_item(part), False))
            meta[f"{jid}_{part['id']}"] = ("generated", p)
        k += 1
    files = real_files()
    for i, f in enumerate(files):
        jobs.append((f"f{i:03d}", "file", None, f, False))
        meta[f"f{i:03d}"] = ("file", f)
    exe = inproc_engine.build(ctx)
    res1 = inproc_engine.run_jobs(ctx, "c13a", jobs, shards=16, exe=exe)
    res2 = inproc_engine.run_jobs(ctx, "c13b", list(reversed(jobs)), shards=7, exe=exe)
    real_items = 0
    for jid, r in sorted(res1.items()):
        base = jid.split("#")[0]
        origin, what = meta[base]
        if r.get("status") in ("file", "skipped"):
            if r.get("status") == "skipped":
                ctx.count("real_files_unparsable")
            continue
        ctx.ev()
        src = what if origin == "file" else f"generated {jid}"
        d = {"input": src, "job": jid, "result": {k: v for k, v in r.items() if k != "view"}}
        is_ui = origin == "file" and "/tests/ui/" in what
        if origin == "file":
            real_items += 1
        if r["status"] != "clean":
            if is_ui:
                ctx.count("ui_inputs_rejected")   # the repo's own negative examples
                continue
            ctx.violate(f"not-clean:{r['macro']}", f"{src}: valid input expands with status {r['status']} {r.get('panic', '')[:100]}", d)
            continue
        if not r.get("second_same_class") or r.get("digest") != r.get("digest2"):
            ctx.violate("nondeterministic-in-process", f"{src}: two expansions in one process differ", d)
        r2 = res2.get(jid)
        if r2 is None or r2.get("digest") != r.get("digest"):
            ctx.violate("nondeterministic-across-processes", f"{src}: expansion differs between two processes", dict(d, other=r2 and r2.get("digest")))
        if r["macro"] == "entry_points":
            if not r.get("pass_strict"):
                ctx.violate("entry-points-input-changed", f"{src}: entry_points does not re-emit its input unchanged", d)
        elif not r.get("pass_strict"):
            if r.get("pass_lax"):
                ctx.violate(f"param-attrs-of-non-handler-stripped:{r['macro']}", f"{src}: parameter attributes of a method without a message attribute were removed", d)
            else:
                ctx.violate(f"source-altered:{r['macro']}", f"{src}: re-emitted item differs from the input minus framework attributes", d)
        ctx.nontrivial([jid, r.get("digest")])
        ctx.count("expanded_" + r["macro"])
        if len(ctx.samples) < 4 and origin == "file":
            ctx.sample({"real_source": what.replace(corpus.REPO + "/", ""), "item": jid, "macro": r["macro"], "status": r["status"],
                        "passed_through_intact": r.get("pass_strict"), "digest": r.get("digest")})
    ctx.cov["real_source_files"] = len(files)
    ctx.cov["real_source_items"] = real_items
    ctx.cov["generated_inputs"] = n_gen
