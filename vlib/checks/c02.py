"""C02 — dispatch runs exactly the annotated handler with the sent arguments."""
import json

from ..spec import KINDS_ENUM, handlers, part_by_id, part_customs
from .common import (Canon, api_probe_of, canon_args, doc_text, draw_args, draw_env, draw_info,
                     draw_response, draw_world, dumps, event_args)

MUT_KINDS = ("instantiate", "exec", "sudo", "migrate")


def expected_err(prog, part, h, plan):
    """Description (errs.rs `describe`) of the error the caller must receive."""
    E = prog["error"]  # part error == contract error (sylvia requires it)
    own_is_std = (h["ret_err"] == "std") or E == "StdError"
    if h.get("ret_err") == "lookup":
        # the handler's own error type, converted by its From impl into the contract's error
        if "err_own" in plan:
            return {"ty": "MonErr", "lookup": {"ty": "LookupErr", "code": plan["err_own"]}}
        return {"ty": "MonErr", "lookup": {"ty": "LookupErr", "text": plan["err_std"]}}
    if "err_own" in plan:
        code = plan["err_own"]
        if E == "StdError":
            return {"ty": "StdError", "generic": f"own-std-{code}"}
        if h["ret_err"] == "std":
            return {"ty": "MonErr", "std": {"ty": "StdError", "generic": f"own-std-{code}"}}
        return {"ty": "MonErr", "custom": code}
    text = plan["err_std"]
    if E == "StdError":
        return {"ty": "StdError", "generic": text}
    return {"ty": "MonErr", "std": {"ty": "StdError", "generic": text}}


def strip_display(d):
    d = dict(d)
    d.pop("display", None)
    d.pop("root", None)
    return d


def draw_plan(rng, prog, part, h, canon, which=None):
    """(plan, expected result) for one call."""
    which = which or rng.choice(["ok", "ok", "err_own", "err_std"])
    if which == "ok":
        if h["kind"] == "query":
            ty = prog["types"][h["resp_ti"]]
            text = dumps(ty.gen(rng))
            c = canon.one(h["resp_ti"], text)["ok"]
            return {"ok": text}, ("bin", c), "ok"
        pm, _ = part_customs(prog, part)
        resp = draw_response(rng, custom_msg=pm, allow_custom=pm)
        text = dumps(resp)
        op = "canon:resp" if pm == prog["custom"]["msg"] else "canon:resp_empty"
        co = canon.r.call({"prog": prog["name"], "op": op, "texts": [text]})["res"]["ok"][0]
        if "ok" not in co:
            raise RuntimeError(f"planned response does not decode: {co} {text}")
        return {"ok": text}, ("resp", json.loads(co["ok"])), "ok"
    if which == "err_own":
        plan = {"err_own": rng.randrange(1, 10**6)}
    else:
        plan = {"err_std": "planned failure " + str(rng.randrange(10**6))}
    return plan, ("err", expected_err(prog, part, h, plan)), which


def expected_event(h, ctexts, world, env, info):
    return {
        "handler": h["hid"],
        "args": event_args(h, ctexts),
        "env": env,
        "info": info if h["kind"] in ("instantiate", "exec") else None,
        "storage_probe": world["probe"],
        "api_probe": api_probe_of(world["api_prefix"]),
        "querier_probe": world["balance"],
    }


def norm_env(e):
    e = json.loads(json.dumps(e))
    if e.get("transaction") is None:
        e["transaction"] = None
    return e


def compare_call(ctx, prog, h, via, o, exp_event, exp_res, world, tag):
    """Checks one observation against the prediction; returns True when it matched."""
    pn = prog["name"]
    ok = True

    def bad(sig, what, extra=None):
        nonlocal ok
        ok = False
        d = {"prog": pn, "handler": h["hid"], "via": via, "expected_event": exp_event, "expected_result": exp_res, "obs": o}
        if extra:
            d.update(extra)
        ctx.violate(f"{sig}:{h['kind']}:{via}", f"{pn} {h['hid']} via {via}: {what}", d)

    if "panic" in o:
        bad("panic", f"panicked: {o['panic'][:120]}")
        return False
    evs = o.get("events", [])
    if len(evs) != 1:
        bad("invocations", f"{len(evs)} handler invocations instead of exactly one: {[e.get('handler') for e in evs]}")
    else:
        e = dict(evs[0])
        e["env"] = norm_env(e["env"])
        exp = dict(exp_event)
        exp["env"] = norm_env(exp["env"])
        if e["handler"] != exp["handler"]:
            bad("wrong-handler", f"ran {e['handler']}")
        else:
            for k in ("args", "env", "info", "storage_probe", "api_probe", "querier_probe"):
                if e.get(k) != exp.get(k):
                    bad(f"ctx-{k}", f"handler saw {k}={json.dumps(e.get(k))[:140]} expected {json.dumps(exp.get(k))[:140]}")
    res = o.get("res", {})
    kind, val = exp_res
    if kind == "err":
        if "err" not in res:
            bad("outcome", f"handler error not returned: {str(res)[:160]}")
        elif strip_display(res["err"]) != val:
            bad("error-value", f"error {json.dumps(strip_display(res['err']))[:160]} expected {json.dumps(val)[:160]}")
    elif kind == "resp":
        if "ok" not in res:
            bad("outcome", f"handler response not returned: {str(res)[:160]}")
        elif res["ok"] != val:
            bad("response", f"response altered: {json.dumps(res['ok'])[:200]} expected {json.dumps(val)[:200]}")
    else:
        if "ok" not in res:
            bad("outcome", f"query value not returned: {str(res)[:160]}")
        elif res["ok"]["text"] != val:
            bad("query-encoding", f"query result {res['ok']['text'][:160]} expected {val[:160]}")
    # visible side effects in the caller's storage
    st = o.get("storage")
    if st is not None:
        exp_st = {"probe": world["probe"]}
        if h["kind"] != "query":
            exp_st["last"] = h["hid"] + "#0"
            exp_st["cnt:" + h["hid"]] = "1"
        if st != exp_st:
            bad("storage", f"caller's storage after the call is {json.dumps(st)[:200]} expected {json.dumps(exp_st)[:200]}")
    return ok


def check_prog(ctx, r, prog, n_calls):
    rng = ctx.rng("c02", prog["name"])
    canon = Canon(r, prog)
    pn = prog["name"]
    for h in handlers(prog):
        part = part_by_id(prog, h["part"])
        sib = any(h2 is not h and h2["kind"] == h["kind"] and [a["ti"] for a in h2["args"]] == [a["ti"] for a in h["args"]]
                  for h2 in part["handlers"])
        tis = [a["ti"] for a in h["args"]]
        same_typed = len(tis) != len(set(tis))
        cmds, meta = [], []
        for it in range(n_calls):
            texts = draw_args(rng, prog, h)
            ct = canon_args(canon, prog, h, texts)
            doc = doc_text(h, ct)
            world, env, info = draw_world(rng), draw_env(rng), draw_info(rng)
            which = ["ok", "err_own", "err_std"][it % 3] if it < 3 else None
            plan, exp_res, cls = draw_plan(rng, prog, part, h, canon, which)
            exp_event = expected_event(h, ct, world, env, info)
            vias = [f"dispatch:{h['part']}:{h['kind']}"]
            if h["kind"] in KINDS_ENUM:
                vias.append(f"dispatchw:{h['kind']}")
            for via in vias:
                cmds.append({"prog": pn, "op": via, "doc": doc, "world": world, "env": env, "info": info, "plan": plan})
                meta.append((via, exp_event, exp_res, world, cls, doc, plan))
        outs = r.batch(cmds)
        for (via, exp_event, exp_res, world, cls, doc, plan), o in zip(meta, outs):
            ctx.ev()
            good = compare_call(ctx, prog, h, via.split(":")[0], o, exp_event, exp_res, world, cls)
            ctx.count("calls_" + cls)
            if good and (same_typed or sib):
                ctx.nontrivial([pn, h["hid"], cls, via.split(":")[0], doc])
            if good and cls == "err_own" and len(ctx.samples) < 4:
                ctx.sample({"program": pn, "via": via, "doc": doc, "plan": plan, "event": o["events"][0], "result": o["res"]})


def run(ctx):
    ctx.rule = ("every handler of every part and kind; per handler N calls with drawn arguments, env, info, world probes and a plan "
                "(Ok response / own error / StdError) through the part's message and through the contract-level wrapper; "
                "non-trivial+distinct = distinct (program, handler, plan class, path, document) where two same-typed arguments carry "
                "different values or a sibling handler has the same signature")
    ctx.assumptions = ["handlers are echo handlers: the event log is the only evidence of which method ran",
                       "probes: storage nonce, bech32 prefix of the api, bank balance answered by the querier"]
    fam = ctx.family("general")
    n = ctx.pick(9, 90)

    def per_bin(b, progs, r):
        for p in progs:
            check_prog(ctx, r, p, n)
    fam.each_bin(per_bin)
    ctx.cov["programs"] = len(fam.progs)
    # a slice of the corpus built in the release profile (no debug assertions / overflow checks): what gets deployed
    rel = ctx.family("release")
    rel.each_bin(lambda b, progs, r: [check_prog(ctx, r, p, max(2, n // 3)) for p in progs])
    ctx.cov["release_profile_programs"] = len(rel.progs)
    # handlers whose arguments are user types named like framework items (Empty, Response, Addr, ...)
    sh = ctx.family("shadow")

    def per_bin_sh(b, progs, r):
        for p in progs:
            q = dict(p)
            q["parts"] = [dict(pt, handlers=[h for h in pt["handlers"] if h["kind"] != "reply"]) for pt in p["parts"]]
            check_prog(ctx, r, q, max(2, n // 3))
    sh.each_bin(per_bin_sh)
    ctx.cov["shadow_programs"] = len(sh.progs)
