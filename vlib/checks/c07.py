"""C07 — reply routing honours the declared handler and outcome."""
import json

from ..spec import reply_method_for
from .common import Canon, draw_env, draw_response, draw_world, dumps
from .c02 import strip_display
from .replies import (b64, draw_events, draw_msg_responses, draw_payload, ids_of, payload_for_name, rand_bytes,
                      wellformed_data)


def std_as_contract_err(prog, text):
    if prog["error"] == "StdError":
        return {"ty": "StdError", "generic": text}
    return {"ty": "MonErr", "std": {"ty": "StdError", "generic": text}}


def check_prog(ctx, r, prog, n):
    rng = ctx.rng("c07", prog["name"])
    canon = Canon(r, prog)
    pn = prog["name"]
    tb = prog["reply_table"]
    ids = ids_of(r, prog)
    if len(set(ids.values())) != len(ids):
        ctx.violate("ids-collide", f"{pn}: reply ids are not distinct: {ids}", {"prog": pn, "ids": ids})
    cmds, meta = [], []
    paths = ["dispatch_reply", "ep:reply", "mtc:reply"]
    for name, info in tb["names"].items():
        for ok in (True, False):
            m = reply_method_for(tb, name, ok)
            for it in range(n):
                # payload must decode for the method that runs; for pass-through anything goes
                sig = info["payload"]
                pnames = m["payload_names"] if m else ["payload"]
                payload, pargs, _ = payload_for_name(r, rng, prog, canon, name, info, pnames)
                if m is None and it % 2:
                    # nobody decodes the payload of an outcome without a method: anything must pass through
                    payload = rng.choice(["", b64(b"\xff\x00not json"), b64(b"{"), b64(rand_bytes(rng, 9))])
                gas = rng.choice([0, 1, 2**64 - 1, rng.randrange(10**9)])
                if ok:
                    events, mr = draw_events(rng), draw_msg_responses(rng)
                    if m and m["reply_on"] == "success":
                        data, decho = wellformed_data(rng, prog, canon, m)
                    else:
                        data, decho = rng.choice([None, b64(rand_bytes(rng))]), None
                    result = {"ok": {"events": events, "data": data, "msg_responses": mr}}
                else:
                    # error texts are forwarded verbatim, also ones that look like a rendered StdError
                    text = rng.choice(["boom", "", "codespace: wasm, code: 5", "with \"quote\"", "Generic error: Failed as requested ", "Generic error: Generic error: x",
                                       " leading space", "Error parsing into type x: y "]) + str(rng.randrange(100))
                    result = {"error": text}
                rep = {"id": ids[name], "payload": payload, "gas_used": gas, "result": result}
                # expected
                if m:
                    args = []
                    if m["reply_on"] == "success":
                        if m["data"] is not None:
                            args.append(["data", decho])
                    elif m["reply_on"] == "error":
                        args.append(["error", dumps(result["error"])])
                    else:
                        args.append(["result", None])  # compared structurally
                    args += pargs
                    which = ["ok", "err_own", "err_std"][it % 3]
                    if which == "ok":
                        resp = draw_response(rng, custom_msg=prog["custom"]["msg"], allow_custom=prog["custom"]["msg"])
                        ctext = canon.r.call({"prog": pn, "op": "canon:resp", "texts": [dumps(resp)]})["res"]["ok"][0]["ok"]
                        plan, exp_res = {"ok": dumps(resp)}, ("resp", json.loads(ctext))
                    elif which == "err_own":
                        code = rng.randrange(1, 10**6)
                        plan = {"err_own": code}
                        exp_res = ("err", {"ty": "StdError", "generic": f"own-std-{code}"} if prog["error"] == "StdError" else {"ty": "MonErr", "custom": code})
                    else:
                        t = "planned " + str(rng.randrange(10**6))
                        plan, exp_res = {"err_std": t}, ("err", std_as_contract_err(prog, t))
                else:
                    args, plan = None, None
                    if ok:
                        exp_res = ("resp", {"messages": [], "attributes": [], "events": events, "data": data})
                    else:
                        exp_res = ("err", std_as_contract_err(prog, result["error"]))
                world, env = draw_world(rng), draw_env(rng)
                path = paths[it % len(paths)]
                cmds.append({"prog": pn, "op": path, "reply": rep, "world": world, "env": env, "plan": plan})
                meta.append((name, ok, m, rep, args, exp_res, path, world, env))
    # unknown ids
    known = set(ids.values())
    for it in range(max(3, n // 2)):
        uid = rng.choice([max(known) + 1, 2**64 - 1, rng.randrange(2**40), len(known), 10**6 + it])
        if uid in known:
            continue
        rep = {"id": uid, "payload": b64(rand_bytes(rng)), "gas_used": 1,
               "result": rng.choice([{"ok": {"events": [], "data": None, "msg_responses": []}}, {"error": "x"}])}
        good = [mm[3] for mm in meta if mm[0] is not None]
        if good and it % 2 == 0:
            # a reply that is well-formed for one of the known handlers (payload, data, outcome), under an id nobody registered
            rep = dict(rng.choice(good), id=uid)
        path = paths[it % len(paths)]
        cmds.append({"prog": pn, "op": path, "reply": rep, "world": draw_world(rng), "env": draw_env(rng), "plan": None})
        meta.append((None, None, None, rep, None, ("unknown", uid), path, None, None))
    outs = r.batch(cmds)
    for (name, ok, m, rep, args, exp_res, path, world, env), o in zip(meta, outs):
        ctx.ev()
        cls = ("unknown-id" if name is None else
               ("%s:%s" % (tb["names"][name]["cover"], "ok" if ok else "err")))
        d = {"prog": pn, "name": name, "table": {k: v["cover"] for k, v in tb["names"].items()},
             "methods": [(x["name"], x["serves"], x["reply_on"]) for x in tb["methods"]], "reply": rep, "path": path, "obs": o}
        if "panic" in o:
            ctx.violate(f"panic:{cls}", f"{pn}: reply dispatch panicked: {o['panic'][:120]}", d)
            continue
        evs = o.get("events", [])
        res = o.get("res", {})
        if name is None:
            if evs or "err" not in res:
                ctx.violate("unknown-id-handled", f"{pn}: reply with unknown id {rep['id']} was handled: {str(res)[:100]} {[e['handler'] for e in evs]}", d)
            else:
                ctx.nontrivial([pn, "unknown", rep["id"], path])
            continue
        if m is None:
            if evs:
                ctx.violate(f"uncovered-outcome-ran:{cls}", f"{pn}: no method covers ({name}, {'ok' if ok else 'err'}) but {[e['handler'] for e in evs]} ran", d)
                continue
        else:
            if [e["handler"] for e in evs] != [m["hid"]]:
                ctx.violate(f"wrong-method:{cls}", f"{pn}: reply ({name}, {'ok' if ok else 'err'}) must run {m['hid']} but ran {[e['handler'] for e in evs]}: {str(res)[:120]}", d)
                continue
            e = evs[0]
            if e["reply"]["gas_used"] != rep["gas_used"]:
                ctx.violate(f"gas:{cls}", f"{pn}: handler saw gas_used {e['reply']['gas_used']} instead of {rep['gas_used']}", d)
            if m["reply_on"] == "success":
                if e["reply"]["events"] != rep["result"]["ok"]["events"] or e["reply"]["msg_responses"] != rep["result"]["ok"]["msg_responses"]:
                    ctx.violate(f"ctx-events:{cls}", f"{pn}: success method did not get the sub-message's events / msg_responses", d)
            got = [list(x) for x in e["args"]]
            exp = [list(x) for x in args]
            if m["reply_on"] == "always":
                if json.loads(got[0][1]) != rep["result"] or got[0][0] != "result":
                    ctx.violate(f"always-result:{cls}", f"{pn}: always method got result {got[0][1][:100]}", d)
                got, exp = got[1:], exp[1:]
            if got != exp:
                ctx.violate(f"args:{cls}", f"{pn}: {m['hid']} got {json.dumps(got)[:160]} expected {json.dumps(exp)[:160]}", d)
        kind, val = exp_res
        if kind == "resp":
            if res.get("ok") != val:
                ctx.violate(f"result:{cls}", f"{pn}: ({name}, {'ok' if ok else 'err'}) answered {json.dumps(res)[:160]} expected Ok {json.dumps(val)[:160]}", d)
                continue
        else:
            if "err" not in res or strip_display(res["err"]) != val:
                ctx.violate(f"result:{cls}", f"{pn}: ({name}, {'ok' if ok else 'err'}) answered {json.dumps(res)[:160]} expected Err {json.dumps(val)[:120]}", d)
                continue
        ctx.count("cells_" + cls)
        ctx.nontrivial([pn, name, ok, path, rep["payload"], rep["gas_used"], m["hid"] if m else None])
        if len(ctx.samples) < 5 and m is None:
            ctx.sample({"program": pn, "handler_table": d["methods"], "reply_for": name, "outcome": "ok" if ok else "err",
                        "method_run": None, "answer": res})


def run(ctx):
    ctx.rule = ("reply-table programs (names x coverage success / error / both via two methods / always, shared methods via handlers=[..], default names); "
                "for every (name, outcome): N replies with drawn payload, gas, events, msg_responses, data through dispatch_reply, entry_points::reply and the "
                "multitest Contract impl, plus unknown ids; non-trivial+distinct = distinct (program, name, outcome, path, payload, gas, method)")
    ctx.assumptions = ["sub-message data is well-formed for the data mode of the method that must run (malformed data: C09)",
                       "events/msg_responses handed to an `always` method are not pinned by the statement and not compared"]
    fam = ctx.family("replies")
    n = ctx.pick(9, 60)

    def per_bin(b, progs, r):
        for p in progs:
            check_prog(ctx, r, p, n)
    fam.each_bin(per_bin)
    ctx.cov["programs"] = len(fam.progs)
    ctx.cov["coverage_kinds"] = sorted({v["cover"] for p in fam.progs for v in p["reply_table"]["names"].values()})
