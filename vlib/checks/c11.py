"""C11 — bridging to chain-custom types preserves the response and the call."""
import json

from ..spec import handlers, part_by_id, part_customs
from .common import (Canon, api_probe_of, canon_args, doc_text, draw_args, draw_env, draw_info, draw_response,
                     draw_submsg, draw_world, dumps)

ALL_MSG_KINDS = ["bank", "wasm_exec", "wasm_inst", "staking", "distribution", "ibc", "gov", "stargate", "custom"]


def has_custom(resp):
    return any("custom" in m["msg"] for m in resp["messages"])


def lib_part(ctx, r, n):
    rng = ctx.rng("c11a")
    cmds, resps = [], []
    for i in range(n):
        resp = draw_response(rng, custom_msg=False, allow_custom=True, max_msgs=6)
        resp["messages"] = [draw_submsg(rng, custom_msg=False, allow_custom=(rng.random() < 0.25), kinds=ALL_MSG_KINDS)
                            for _ in range(rng.choice([0, 1, 2, 3, 6]))]
        resps.append(resp)
        cmds.append({"prog": "lib", "op": "into_response", "resp": dumps(resp)})
    for resp, o in zip(resps, r.batch(cmds)):
        ctx.ev()
        kinds = sorted({next(iter(m["msg"])) for m in resp["messages"]})
        d = {"response": resp, "obs": o}
        if "panic" in o or "dec_err" in o.get("res", {}):
            ctx.violate("lib:panic-or-undecodable", f"IntoResponse run failed on a drawn response: {str(o)[:160]}", d)
            continue
        cust = has_custom(resp)
        res = o["res"]
        for k in kinds:
            ctx.count("lib_msgkind_" + k)
        if cust:
            if "err" not in res:
                ctx.violate("lib:custom-accepted", "a response carrying CosmosMsg::Custom(Empty) was converted instead of failing", d)
            else:
                ctx.nontrivial(["lib", "custom", dumps(resp)])
        else:
            if "ok" not in res:
                first = [k for k in kinds]
                ctx.violate("lib:noncustom-rejected:" + "+".join(k for k in kinds if k in ("stargate", "ibc", "gov", "staking", "distribution", "bank", "wasm")),
                            f"a response without custom messages failed to convert: {res['err']['display'][:140]}", d)
            elif res["ok"]["output"] != res["ok"]["input"]:
                ctx.violate("lib:altered", "conversion altered the response (sub-messages / attributes / events / data)", d)
            elif resp["messages"]:
                ctx.nontrivial(["lib", "ok", dumps(resp)])
        if len(ctx.samples) < 3 and len(resp["messages"]) >= 2 and not cust:
            ctx.sample({"input_response": resp, "converted_equal": res.get("ok", {}).get("output") == res.get("ok", {}).get("input")})


def feature_variants(ctx, n):
    """The library conversion in builds of sylvia with other cosmwasm feature sets (default = staking only; none; stargate only)."""
    import subprocess
    from .. import families_extra
    bins = families_extra.nofeat_bins(ctx)
    for b, (path, kinds) in bins.items():
        rng = ctx.rng("c11f", b)
        resps = []
        for i in range(n):
            resp = draw_response(rng, custom_msg=False, allow_custom=False, max_msgs=0)
            resp["messages"] = [draw_submsg(rng, custom_msg=False, allow_custom=(rng.random() < 0.2), kinds=kinds) for _ in range(rng.choice([0, 1, 2, 3, 5]))]
            resps.append(resp)
        p = subprocess.run([path], input="".join(dumps(x) + "\n" for x in resps), stdout=subprocess.PIPE, text=True, timeout=600)
        lines = p.stdout.splitlines()
        if len(lines) != len(resps):
            from ..framework import Inconclusive
            raise Inconclusive(f"{b}: {len(lines)} answers for {len(resps)} inputs")
        for resp, line in zip(resps, lines):
            ctx.ev()
            f = line.split("\t")
            d = {"build": b, "response": resp, "answer": line[:400]}
            kinds_in = sorted({next(iter(m["msg"])) for m in resp["messages"]})
            if f[0] in ("PANIC", "DEC"):
                ctx.violate(f"variant:{b}:{f[0].lower()}", f"{b}: conversion {f[0]} on a drawn response", d)
            elif has_custom(resp):
                if f[0] != "ERR":
                    ctx.violate(f"variant:{b}:custom-accepted", f"{b}: response with a custom message converted", d)
                else:
                    ctx.nontrivial([b, "custom", dumps(resp)])
            elif f[0] != "OK":
                ctx.violate(f"variant:{b}:noncustom-rejected:" + "+".join(kinds_in), f"{b}: response without custom messages ({kinds_in}) failed: {line[:120]}", d)
            elif json.loads(f[1]) != json.loads(f[2]):
                ctx.violate(f"variant:{b}:altered", f"{b}: conversion altered the response", d)
            elif resp["messages"]:
                ctx.nontrivial([b, "ok", dumps(resp)])
            for k in kinds_in:
                ctx.count(f"{b}_msgkind_{k}")
    ctx.cov["feature_variant_builds"] = sorted(bins)


def e2e_prog(ctx, r, prog, n):
    """Contracts with a chain-custom message type: interfaces written for Empty must behave like native ones."""
    if not prog["custom"]["msg"] and not prog["custom"]["query"] and not any(pt.get("extra_flags") for pt in prog["parts"]):
        return
    rng = ctx.rng("c11b", prog["name"])
    canon = Canon(r, prog)
    pn = prog["name"]
    for h in handlers(prog):
        if h["kind"] not in ("exec", "sudo"):
            continue
        part = part_by_id(prog, h["part"])
        pm, pq = part_customs(prog, part)
        bridged = (prog["custom"]["msg"] and not pm) or (prog["custom"]["query"] and not pq) or bool(part.get("extra_flags"))
        for it in range(n):
            texts = draw_args(rng, prog, h)
            ct = canon_args(canon, prog, h, texts)
            doc = doc_text(h, ct)
            world, env, info = draw_world(rng), draw_env(rng), draw_info(rng)
            with_custom = (it % 3 == 2)
            resp = draw_response(rng, custom_msg=pm, allow_custom=False, max_msgs=4)
            resp["messages"] = [draw_submsg(rng, custom_msg=pm, allow_custom=False, kinds=ALL_MSG_KINDS[:-1]) for _ in range(rng.choice([1, 2, 4]))]
            if with_custom:
                resp["messages"].insert(rng.randrange(len(resp["messages"]) + 1), draw_submsg(rng, custom_msg=pm, kinds=["custom"]))
            op = "ep:execute" if h["kind"] == "exec" else "ep:sudo"
            o = r.call({"prog": pn, "op": op, "doc": doc, "world": world, "env": env, "info": info, "plan": {"ok": dumps(resp)}})
            ctx.ev()
            d = {"prog": pn, "handler": h["hid"], "bridged_msg": prog["custom"]["msg"] and not pm, "bridged_query": prog["custom"]["query"] and not pq,
                 "planned": resp, "obs": o}
            evs = o.get("events", [])
            if [e["handler"] for e in evs] != [h["hid"]]:
                ctx.violate("e2e:route", f"{pn} {h['hid']}: ran {[e['handler'] for e in evs]}", d)
                continue
            e = evs[0]
            if (e["storage_probe"], e["api_probe"], e["querier_probe"]) != (world["probe"], api_probe_of(world["api_prefix"]), world["balance"]):
                ctx.violate("e2e:probes", f"{pn} {h['hid']}: handler did not see the caller's storage/api/querier", d)
            exp_info = info if h["kind"] == "exec" else None
            if e["info"] != exp_info or e["env"]["block"] != env["block"] or e["env"]["contract"] != env["contract"]:
                ctx.violate("e2e:ctx", f"{pn} {h['hid']}: handler saw a different env/sender", d)
            res = o["res"]
            # canonical form of the planned response under the *contract's* custom type
            # (an interface flagged `custom(msg)` is converted even if the contract's own message type is Empty)
            must_fail = with_custom and not pm and (prog["custom"]["msg"] or "msg" in part.get("extra_flags", []))
            if must_fail:
                if "err" not in res:
                    ctx.violate("e2e:custom-accepted", f"{pn} {h['hid']}: response with a Custom(Empty) message reached the caller: {str(res)[:120]}", d)
                else:
                    ctx.nontrivial([pn, h["hid"], "fail", dumps(resp)])
            else:
                co = r.call({"prog": pn, "op": "canon:resp" if pm == prog["custom"]["msg"] else "canon:resp_empty", "texts": [dumps(resp)]})["res"]["ok"][0]
                exp = json.loads(co["ok"])
                if res.get("ok") != exp:
                    ctx.violate("e2e:response", f"{pn} {h['hid']}: caller received {json.dumps(res)[:160]} instead of the handler's response", dict(d, expected=exp))
                elif bridged:
                    ctx.nontrivial([pn, h["hid"], "ok", dumps(resp)])
            ctx.count("e2e_bridged_calls" if bridged else "e2e_native_calls")
            if bridged and len(ctx.samples) < 5:
                ctx.sample({"program": pn, "handler": h["hid"], "contract_custom": prog["custom"], "interface_mode": part.get("custom_mode"),
                            "planned_kinds": [next(iter(m["msg"])) for m in resp["messages"]], "result": "err" if "err" in res else "ok"})


def run(ctx):
    ctx.rule = ("(a) IntoResponse::<MyMsg>::into_response on drawn Response<Empty> values over every CosmosMsg kind of the enabled features; "
                "(b) exec and sudo through the entry points of contracts with custom msg/query types, for native interfaces and interfaces written for Empty; "
                "non-trivial+distinct = distinct converted responses with >=1 sub-message, distinct failing responses with a custom message, "
                "distinct bridged end-to-end calls")
    ctx.assumptions = ["main corpus: cosmwasm features as in the baseline suite; the library conversion is additionally run in builds with default features only, "
                       "no features, and stargate only (no cosmwasm_2_0: CosmosMsg::Any is never built)"]
    fam = ctx.family("general")
    r = fam.runner(sorted(fam.bins())[0])
    try:
        lib_part(ctx, r, ctx.pick(6000, 200000))
    finally:
        r.close()
    n = ctx.pick(6, 60)

    def per_bin(b, progs, r):
        for p in progs:
            e2e_prog(ctx, r, p, n)
    fam.each_bin(per_bin)
    feature_variants(ctx, ctx.pick(1500, 40000))
