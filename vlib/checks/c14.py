"""C14 — behaviour does not depend on the order of declarations."""
import itertools
import json
import re

from .. import families, inproc_engine, render, spec
from ..families import build_family
from . import c02, c03, c07, c08

ORDER_DEPENDENT_BODIES = {"dispatch", "dispatch_reply", "deserialize", "response_schemas_impl", "json_schema"}


def normalise(view):
    """Order-insensitive digest of an expansion's structural view; reply id numbers erased."""
    out = []
    for it in view:
        k = it["k"]
        if k == "enum":
            vs = sorted((v["name"], tuple(sorted(v["attrs"])), json.dumps(v["fields"])) for v in it["variants"])
            out.append(("enum", it["path"], it["name"], tuple(sorted(it["attrs"])), json.dumps(it["generics"]), tuple(vs)))
        elif k == "struct":
            out.append(("struct", it["path"], it["name"], tuple(sorted(it["attrs"])), json.dumps(it["generics"]), json.dumps(it["fields"])))
        elif k == "fn":
            name = it["sig"]["name"]
            body = "" if name in ORDER_DEPENDENT_BODIES else it["text"]
            arms = tuple(sorted(_erase_ids(a) for a in it.get("arms", []))) if name in ("dispatch", "dispatch_reply") else ()
            out.append(("fn", it["path"], json.dumps(it["sig"]), body, arms))
        elif k == "const":
            val = "<id>" if it["name"].endswith("_REPLY_ID") else it["value"]
            out.append(("const", it["path"], it["name"], val))
        elif k == "type":
            out.append(("type", it["path"], it["name"], json.dumps(it["generics"]), it["ty"]))
        elif k == "trait":
            out.append(("trait", it["path"], it["name"], json.dumps(it["generics"]), tuple(sorted(json.dumps(m) for m in it["methods"])), tuple(sorted(it["types"]))))
        elif k == "impl":
            ms = []
            for m in it["methods"]:
                body = "" if m["sig"]["name"] in ORDER_DEPENDENT_BODIES else m["body"]
                arms = tuple(sorted(m.get("arms", []))) if m["sig"]["name"] == "dispatch" else ()
                ms.append((json.dumps(m["sig"]), body, arms))
            out.append(("impl", it["path"], it["self_ty"], it["trait"], json.dumps(it["generics"]), tuple(sorted(ms)), tuple(sorted(it["types"]))))
        elif k in ("mod", "use", "macro"):
            out.append((k, it["path"], it.get("text") or it.get("name") or ""))
        else:
            out.append(("other", it["path"], it.get("text", "")))
    return sorted(out, key=lambda x: json.dumps(x))


def _erase_ids(arm):
    return arm


def perms(rng, n, limit):
    idx = list(range(n))
    if n <= 1:
        return []
    allp = None
    if n <= 4:
        allp = [list(p) for p in itertools.permutations(idx)][1:]
        if len(allp) <= limit:
            return allp
    out = [list(reversed(idx))]
    while len(out) < limit:
        p = idx[:]
        rng.shuffle(p)
        if p != idx and p not in out:
            out.append(p)
    return out


def orders_for(rng, p, limit):
    """A list of `order` dicts: permutations of each part's methods, of sv::messages, of the attribute block."""
    out = []
    for part in p["parts"]:
        for pm in perms(rng, len(part["handlers"]), limit):
            out.append({part["id"]: pm})
    n_if = len(p["parts"]) - 1
    for pm in perms(rng, n_if, limit):
        out.append({"messages": pm})
    # whole attribute block of the contract (error, custom, features, messages, overrides, msg_attrs)
    R = render.R(p)
    R.contract_src()
    n_attrs = sum(1 for l in R._contract_item.split("\n") if l.startswith("#[sv::"))
    for pm in perms(rng, n_attrs, max(2, limit // 2)):
        out.append({"attrs": pm})
    # the method-level attribute lists: sv::attr lines above / below the sv::msg line, and among themselves
    if any(h.get("sv_attrs") for part in p["parts"] for h in part["handlers"]):
        out.append({"attr_pos": "flip"})
        out.append({"attr_pos": "reverse"})
    # everything at once
    both = {}
    for part in p["parts"]:
        ps = perms(rng, len(part["handlers"]), 1)
        if ps:
            both[part["id"]] = ps[0]
    if both:
        out.append(both)
    return out


def gen_rich(ctx, i):
    rng = ctx.rng("c14", i)
    kind = i % 3
    p = spec.gen_program(rng, f"o{i:04d}", n_ifaces=rng.choice([0, 1, 2, 3]))
    if kind == 0:
        # several forwarded attributes of one outer path on one handler: all of them arrive, in whatever order they are written
        for part in p["parts"]:
            for h in part["handlers"]:
                if h["kind"] in spec.KINDS_ENUM and rng.random() < 0.3:
                    tag = h["hid"].replace(".", "_")
                    h["sv_attrs"] = list(h.get("sv_attrs", [])) + [f"serde(alias = \"{tag}_a\")", f"serde(alias = \"{tag}_b\")"]
                    if rng.random() < 0.5:
                        h["sv_attrs"].append("schemars(description = \"two\")")
    if kind == 1:
        spec.gen_reply_table(rng, p, stage_shared=(i % 6 == 1))
        unify_payload_names(p)
        if i % 6 == 4:
            mix_raw_marks(rng, p)
    if kind == 2:
        ks = rng.sample(spec.ALL_EP_KINDS, rng.choice([1, 2, 3]))
        if i % 6 == 2:
            # both optional entry points overridden, `reply` written above `migrate` (the reversed attribute block swaps them)
            ks = ["reply"] + [k for k in ks if k not in ("reply", "migrate")][:1] + ["migrate"]
        p["overrides"] = [{"kind": k, "fn": f"ov_{k}", "msg": "svmon::OvMsg"} for k in ks]
        for part in p["parts"]:
            kinds = ["instantiate", "exec", "query", "sudo"] if part["id"] == "c" else ["exec", "query", "sudo"]
            part["msg_attrs"] = [(rng.choice(kinds), f"derive(Mark{j})") for j in range(rng.choice([1, 2, 3]))]
            if i % 6 == 5:
                # two attributes for one kind with another kind's attribute written between them
                k1, k2 = rng.sample(kinds, 2)
                part["msg_attrs"] = [(k1, "derive(Mark0)"), (k2, "derive(Mark1)"), (k1, "derive(Mark2)")]
    return p


def unify_payload_names(p):
    """Methods serving one handler name get the same payload parameter names.  sylvia names the locals of that
    handler's dispatch arm and the parameters of its `SubMsgMethods` builder after the first such method it meets;
    with different names per method the expansions of two orders are alpha-variants of each other, not equal
    texts, and parameter names are not behaviour (a false alarm of the textual comparison otherwise: DESIGN 10)."""
    ms = (p.get("reply_table") or {}).get("methods", [])
    comp = {id(m): {id(m)} for m in ms}
    by_id = {id(m): m for m in ms}
    for a in ms:
        for b in ms:
            if a is not b and set(a["serves"]) & set(b["serves"]):
                u = comp[id(a)] | comp[id(b)]
                for x in u:
                    comp[x] = u
    for m in ms:
        lead = min((by_id[x] for x in comp[id(m)]), key=lambda q: q["name"])
        if len(lead["payload_names"]) == len(m["payload_names"]):
            m["payload_names"] = list(lead["payload_names"])


def mix_raw_marks(rng, p):
    """Makes a success and an error method of one handler name disagree on `sv::payload(raw)` (both take one `Binary`)."""
    from .. import types as T
    ms = p["reply_table"]["methods"]
    for a in ms:
        for b in ms:
            if a["reply_on"] == "success" and b["reply_on"] == "error" and set(a["serves"]) & set(b["serves"]):
                bn = spec.intern_type(p, T.BINARY)
                for m in ms:
                    if set(m["serves"]) & (set(a["serves"]) | set(b["serves"])):
                        m["payload"] = [bn]
                        m["payload_names"] = ["payload"]
                rng.choice([a, b])["raw_mark"] = True
                p["inconsistent_raw_marks"] = True
                return


def inproc_part(ctx):
    n = ctx.pick(48, 160)
    limit = ctx.pick(6, 12)
    jobs, meta = [], {}
    for i in range(n):
        p = gen_rich(ctx, i)
        rng = ctx.rng("c14o", i)
        variants = [("id", {})] + [(f"v{j}", o) for j, o in enumerate(orders_for(rng, p, limit))]
        for vname, order in variants:
            R = render.R(p, order=order)
            base = f"o{i:04d}_{vname}"
            jobs.append((base + "_c", "contract", None, R.contract_item(), True))
            jobs.append((base + "_e", "entry_points", None, R.contract_item(True), True))
            for part in p["parts"][1:]:
                if vname == "id" or part["id"] in order or "attr_pos" in order:
                    jobs.append((f"{base}_{part['id']}", "interface", None, R.iface_item(part), True))
            meta[base] = (p, vname, order)
    res = inproc_engine.run_jobs(ctx, "c14", jobs)
    for base, (p, vname, order) in meta.items():
        if vname == "id":
            continue
        idb = base.rsplit("_", 1)[0] + "_id"
        for suffix in ["c", "e"] + [pt["id"] for pt in p["parts"][1:]]:
            r, r0 = res.get(f"{base}_{suffix}"), res[f"{idb}_{suffix}"]
            if r is None:
                continue
            ctx.ev()
            d = {"program": p["name"], "permutation": order, "item": suffix,
                 "original_status": r0["status"], "permuted_status": r["status"]}
            if p.get("inconsistent_raw_marks") and suffix in ("c", "e"):
                # not a valid program (one handler name, two payload wire formats): either order must be refused; were both
                # accepted, the first declared method would decide the format -- the defect repaired by d781708
                ctx.count("inconsistent_raw_mark_orders")
                if r["status"] != r0["status"]:
                    ctx.violate("acceptance-depends-on-order:mixed-raw", f"{p['name']} ({suffix}): {r0['status']} in one declaration order, {r['status']} under permutation {order}", d)
                elif r["status"] == "clean" and normalise(r0["view"]) != normalise(r["view"]):
                    ctx.violate("payload-format-depends-on-order", f"{p['name']} ({suffix}): methods of one reply handler disagree on sv::payload(raw), the program is accepted, "
                                f"and the declaration order decides whether the payload is raw bytes or JSON (permutation {order})", d)
                else:
                    ctx.nontrivial([p["name"], suffix, "mixed-raw", json.dumps(order, sort_keys=True)])
                continue
            if r0["status"] != "clean":
                ctx.violate("original-rejected", f"{p['name']}: valid program is rejected in its original order ({r0['status']})", d)
                continue
            if r["status"] != r0["status"]:
                ctx.violate("acceptance-depends-on-order", f"{p['name']} ({suffix}): accepted in one declaration order, {r['status']} under permutation {order}", d)
                continue
            a, b = normalise(r0["view"]), normalise(r["view"])
            if a != b:
                da = [x for x in a if x not in b][:3]
                db = [x for x in b if x not in a][:3]
                ctx.violate(f"expansion-depends-on-order:{(da or db)[0][0]}", f"{p['name']} ({suffix}): generated items differ under permutation {order}: {str(da)[:200]}",
                            dict(d, only_original=da, only_permuted=db))
            else:
                ctx.nontrivial([p["name"], suffix, json.dumps(order, sort_keys=True)])
                ctx.count("permutations_compared")
    ctx.cov["inproc_programs"] = n


def generic_part(ctx):
    """Generic contracts and interfaces with associated types under permutations of their methods: the parameter order of a
    message type follows the first use of the parameters, i.e. the method order, and every generated item that names the
    type (the Api aliases) has to follow it in every order; acceptance must not change."""
    from . import c15
    n = ctx.pick(24, 120)
    limit = ctx.pick(3, 6)
    jobs, meta = [], {}
    for i in range(n):
        rng = ctx.rng("c14g", i)
        p = spec.gen_generic_program(rng, f"og{i:04d}", n_generics=rng.choice([2, 3, 4]), n_ifaces=rng.choice([1, 2]))
        orders = [("id", {})]
        for part in p["parts"]:
            for j, pm in enumerate(perms(rng, len(part["handlers"]), limit)):
                orders.append((f"{part['id']}v{j}", {part["id"]: pm}))
        for vname, order in orders:
            R = render.R(p, order=order)
            base = f"og{i:04d}_{vname}"
            if vname == "id" or "c" in order:
                jobs.append((base + "_c", "contract", None, R.contract_item(), True))
            for part in p["parts"][1:]:
                if vname == "id" or part["id"] in order:
                    jobs.append((f"{base}_{part['id']}", "interface", None, R.iface_item(part), True))
        meta[f"og{i:04d}"] = p
    res = inproc_engine.run_jobs(ctx, "c14g", jobs)
    for jid, r in res.items():
        ctx.ev()
        pname = jid.split("_")[0]
        d = {"program": pname, "job": jid, "status": r["status"]}
        if r["status"] != "clean":
            ctx.violate("acceptance-depends-on-order:generic" if "_id_" not in jid else "original-rejected",
                        f"{jid}: generic program expands {r['status']} in this declaration order {r.get('panic', '')[:80]}", d)
            continue
        bad = c15.api_alias_mismatches(r["view"])
        if bad:
            tr, st, line, names, declared = bad[0]
            ctx.violate("api-argument-order-depends-on-order", f"{jid}: `{tr}` names `{line.strip()[:80]}` but the type's parameters are {declared} in this declaration order",
                        dict(d, impl=tr, self_ty=st, line=line, declared=declared))
        else:
            ctx.nontrivial([jid, "generic-order"])
            ctx.count("generic_orders_consistent")
    ctx.cov["inproc_generic_programs"] = n


def twins(ctx):
    """Order twins compiled against the repository and run under the C02/C03/C07/C08 monitors."""
    n = ctx.pick(8, 40)
    by_bin = {}
    k = 0
    for i in range(n):
        rng = ctx.rng("c14t", i)
        customs = [None, {"msg": True, "query": True}, {"msg": False, "query": True}, {"msg": True, "query": False}][i % 4]
        p0 = spec.gen_program(rng, f"w{i:03d}", n_ifaces=rng.choice([2, 3]), customs=customs)
        if customs:
            # interfaces of every custom mode next to each other, so that the order of sv::messages matters if it ever does
            for part, mode in zip(p0["parts"][1:], ["empty", "assoc", "fixed"]):
                spec.set_custom_mode(p0, part, mode)
        if i % 2:
            spec.gen_reply_table(rng, p0, n_names=rng.choice([2, 3]))
        elif i % 4 == 0:
            # a name two interfaces / the contract accept through aliases: refused in every order, never routed by position
            spec.add_shared_alias(rng, p0)
        orders = [{}]
        rev = {part["id"]: list(reversed(range(len(part["handlers"])))) for part in p0["parts"]}
        rev["messages"] = list(reversed(range(len(p0["parts"]) - 1)))
        orders.append(rev)
        rnd = {}
        for part in p0["parts"]:
            pm = list(range(len(part["handlers"])))
            rng.shuffle(pm)
            rnd[part["id"]] = pm
        orders.append(rnd)
        for j, o in enumerate(orders):
            import copy
            q = copy.copy(p0)
            q["name"] = f"w{i:03d}_{j}"
            q["_render_kw"] = {"order": o}
            q["twin_of"] = p0["name"]
            by_bin.setdefault(f"w{k % ctx.pick(4, 16):02d}", []).append(q)
            k += 1
    fam = build_family(ctx, "twins", by_bin)
    refused = {p["twin_of"] for p, _ in fam.refused}
    compiled = {}
    for p in fam.progs:
        compiled.setdefault(p["twin_of"], []).append(p["name"])
    for t, names in compiled.items():
        if t in refused:
            ctx.violate("twin-acceptance-differs", f"order twins of {t}: {names} compile but another order is refused", {"twin_of": t, "compiled": names})

    def per_bin(b, progs, r):
        for p in progs:
            c02.check_prog(ctx, r, p, 3) if not p.get("reply_table") else None
            if p.get("reply_table"):
                c07.check_prog(ctx, r, p, 3)
                c08.check_prog(ctx, r, p, 3)
            else:
                # the recorded duplicate-key / array-for-struct findings of C03 are not order effects: those document classes are left to C03
                c03.check_prog(ctx, r, p, 1, skip_classes=("dupkey-top-same", "dupkey-top-bad-first", "dupkey-top-bad-last", "dupkey-body",
                                                                "struct-as-long-seq", "seq-for-struct"))
    fam.each_bin(per_bin)
    ctx.cov["compiled_twins"] = len(fam.progs)
    ctx.sample({"twin_example": {"program": fam.progs[-1]["twin_of"], "orders": fam.progs[-1]["_render_kw"]["order"]}})


def run(ctx):
    ctx.rule = ("(i) in-process: generated programs (general, with reply tables, with overrides and msg_attr lists) expanded in their original order and under permutations of each "
                "part's methods, of sv::messages, of the whole attribute block (all permutations when <=4 items, else reversed + random): clean/dirty must not change and an "
                "order-insensitive view of the expansion (message variants by name, tables, builder signatures and bodies, reply_on, entry points; enum order and reply id values erased; "
                "dispatch / dispatch_reply bodies compared as sets of match arms, deserialize bodies excluded) must be identical; (ii) order twins (original, reversed, random) compiled and run under the C02/C03/C07/C08 monitors with the "
                "same spec; non-trivial+distinct = distinct (program, item, permutation) comparisons")
    ctx.assumptions = ["dispatch arms are compared behaviourally (twins under the monitors), not textually"]
    inproc_part(ctx)
    generic_part(ctx)
    twins(ctx)
