"""C17 — forwarded attributes land on exactly the designated item."""
import json
import re

from .. import inproc_engine, render, spec
from ..spec import KINDS_ENUM, handlers
from .. import types as T
from .common import Canon, body_text, canon_args, doc_text, draw_args, dumps

MSG_OF = render.MSG_OF


def place_markers(rng, p):
    """Unique inert markers on every forwarding route; returns {marker: expected location}."""
    n = [100]
    exp = {}

    def mark():
        n[0] += 1
        return n[0]
    for part in p["parts"]:
        kinds = ["instantiate", "exec", "query", "sudo", "migrate", "reply"]
        prefix = "" if part["id"] == "c" else part["trait"]
        part["msg_attrs"] = []
        for k in kinds:
            for _ in range(rng.choice([0, 1, 1, 2])):
                m = mark()
                part["msg_attrs"].append((k, f"verif_mark({m})"))
                has_type = k != "reply" and (k in KINDS_ENUM or (part["id"] == "c" and any(h["kind"] == k for h in part["handlers"])))
                exp[m] = ("type", prefix + MSG_OF[k]) if has_type else ("nowhere",)
        # real derives whose names are contained in names of the built-in derive block (Eq in PartialEq, ..)
        for k in KINDS_ENUM:
            if rng.random() < 0.3:
                dv = rng.choice(["derive(Eq)", "derive(Hash)", "derive(Eq, Hash)", "derive(PartialOrd)", "derive(Partial)", "derive(Schema)", "derive(Serialize2)"])
                part["msg_attrs"].append((k, dv))
                exp[("derive", part["id"], k)] = ("derive", prefix + MSG_OF[k], dv)
        rng.shuffle(part["msg_attrs"])
        for h in part["handlers"]:
            if h["kind"] in KINDS_ENUM:
                h["sv_attrs"] = []
                for _ in range(rng.choice([0, 1, 2])):
                    m = mark()
                    h["sv_attrs"].append(f"verif_mark({m})")
                    exp[m] = ("variant", prefix + MSG_OF[h["kind"]], T.variant_ident(h["name"]))
                h["sv_attrs_above"] = rng.choice([0, 0, 1, len(h["sv_attrs"])])
            if h["kind"] == "reply":
                continue
            for a in h["args"]:
                if rng.random() < 0.5:
                    m = mark()
                    # list form, doc comment and bare-path form are all forwarded to the field
                    # (also inside serde lists, whatever else the list says and whatever the argument's type is)
                    a["attrs"] = [rng.choice([f"verif_mark({m})", f"doc = \"verif_mark({m})\"", f"verif_mark_{m}", f"serde(default = \"verif_mark_{m}\")",
                                              f"serde(default, alias = \"verif_mark_{m}\")", f"serde(rename = \"verif_mark_{m}\", default)",
                                              f"serde(default, skip_serializing_if = \"verif_mark_{m}\")"])]
                    if h["kind"] in KINDS_ENUM:
                        exp[m] = ("field", prefix + MSG_OF[h["kind"]], T.variant_ident(h["name"]), a["name"])
                    else:
                        exp[m] = ("sfield", MSG_OF[h["kind"]], a["name"])
    return exp


def find_markers(view):
    """{marker: [locations]} from the structural view of an expansion."""
    found = {}

    def scan(attrs, loc):
        for a in attrs:
            for m in re.findall(r"verif_mark(?:\s*\(\s*|_)(\d+)", a):
                found.setdefault(int(m), []).append(loc)
    for it in view:
        if it["k"] == "enum":
            for a in it["attrs"]:
                found.setdefault(("derive-text", it["name"], re.sub(r"\s+", "", a).replace(",", ", ")), []).append(("type", it["name"]))
            scan(it["attrs"], ("type", it["name"]))
            for v in it["variants"]:
                scan(v["attrs"], ("variant", it["name"], v["name"]))
                for f in v["fields"]:
                    scan(f["attrs"], ("field", it["name"], v["name"], f["name"]))
        elif it["k"] == "struct":
            scan(it["attrs"], ("type", it["name"]))
            for f in it["fields"]:
                scan(f["attrs"], ("sfield", it["name"], f["name"]))
        else:
            txt = json.dumps(it)
            for m in re.findall(r"verif_mark(?:\s*\(\s*|_)(\d+)", txt):
                found.setdefault(int(m), []).append(("elsewhere", it["k"], it.get("name") or (it.get("sig") or {}).get("name")))
    return found


def structure(ctx):
    n = ctx.pick(60, 900)
    jobs, meta = [], {}
    for i in range(n):
        rng = ctx.rng("c17s", i)
        if i % 3 == 2:
            # generic contracts / interfaces with associated types: generic message types and `Self::Assoc`-typed arguments
            p = spec.gen_generic_program(rng, f"m{i:04d}", n_ifaces=rng.choice([1, 2]))
        else:
            p = spec.gen_program(rng, f"m{i:04d}", n_ifaces=rng.choice([0, 1, 2]))
        exp = place_markers(rng, p)
        R = render.R(p)
        jobs.append((f"m{i:04d}_c", "contract", None, R.contract_item(), True))
        for part in p["parts"][1:]:
            jobs.append((f"m{i:04d}_{part['id']}", "interface", None, R.iface_item(part), True))
        meta[f"m{i:04d}"] = (p, exp)
    res = inproc_engine.run_jobs(ctx, "c17", jobs)
    for key, (p, exp) in meta.items():
        found = {}
        bad = False
        for jid, r in res.items():
            if not jid.startswith(key + "_"):
                continue
            if r["status"] != "clean":
                ctx.violate("marked-program-rejected", f"{jid}: program with forwarded attributes expands {r['status']}", {"job": jid, "result": {k: v for k, v in r.items() if k != 'view'}})
                bad = True
                continue
            pid_ = jid[len(key) + 1:]
            for m, locs in find_markers(r["view"]).items():
                if isinstance(m, tuple) and m[0] == "derive-text":
                    m = (m[0], pid_) + m[1:]   # per part: two interfaces may generate same-named message types
                found.setdefault(m, []).extend(locs)
        if bad:
            continue
        for m, want in exp.items():
            ctx.ev()
            got = found.get(m, [])
            d = {"program": key, "marker": m, "expected": want, "found": got}
            if want[0] == "derive":
                got = found.get(("derive-text", m[1], want[1], want[2]), [])
                d["found"] = got
                if len(got) != 1:
                    ctx.violate("misplaced:derive", f"{key}: forwarded `{want[2]}` appears {len(got)} times on {want[1]}", d)
                else:
                    ctx.nontrivial([key, str(m), want])
                    ctx.count("markers_derive")
                continue
            if want == ("nowhere",):
                if got:
                    ctx.violate("attr-for-typeless-kind-placed", f"{key}: attribute forwarded to a kind without a message type appears at {got}", d)
                continue
            if [tuple(g) for g in got] != [tuple(want)]:
                ctx.violate(f"misplaced:{want[0]}", f"{key}: forwarded attribute expected on {want} found on {got}", d)
            else:
                ctx.nontrivial([key, m, want])
                ctx.count("markers_" + want[0])
        if len(ctx.samples) < 3 and len(exp) > 4:
            ctx.sample({"program": key, "placements": {str(m): list(w) for m, w in list(exp.items())[:5]}})


def effects(ctx):
    fam = ctx.family("attrs")

    def per_bin(b, progs, r):
        for p in progs:
            effect_prog(ctx, r, p)
    fam.each_bin(per_bin)
    ctx.cov["effect_programs"] = len(fam.progs)


def effect_prog(ctx, r, p):
    rng = ctx.rng("c17e", p["name"])
    canon = Canon(r, p)
    pn = p["name"]
    eff = p["attr_effects"]
    deny = set(map(tuple, eff["deny"]))
    alias = dict(eff["alias"])
    dflt = set(map(tuple, eff["default"]))
    upper = set(map(tuple, eff.get("upper", [])))
    for h in handlers(p):
        texts = draw_args(rng, p, h)
        ct = canon_args(canon, p, h, texts)
        up = (h["part"], h["kind"]) in upper
        akey = (lambda x: T.arg_key(x).upper()) if up else T.arg_key
        body = "{" + ",".join(dumps(akey(a)) + ":" + c for a, c in zip(h["args"], ct)) + "}"
        op = f"parse:{h['part']}:{h['kind']}"
        wrap = (lambda b, name=h["name"]: b) if h["kind"] in ("instantiate", "migrate") else (lambda b, name=T.wire_name(h["name"]): "{" + dumps(name) + ":" + b + "}")
        # 0. rename_all_fields forwarded to this message type: upper-case argument keys under the unchanged message name
        if up:
            o = r.call({"prog": pn, "op": op, "doc": wrap(body)})
            ctx.ev()
            d = {"prog": pn, "handler": h["hid"], "doc": wrap(body), "obs": o["res"]}
            if "ok" not in o["res"] or T.variant_ident(h["name"]) + " " not in o["res"]["ok"]["debug"] + " ":
                ctx.violate("rename_all_fields:not-effective", f"{pn} {h['hid']}: document with upper-case argument keys under the message name `{T.wire_name(h['name'])}` "
                            f"is not accepted as that message: {str(o['res'])[:140]}", d)
            else:
                ctx.nontrivial([pn, h["hid"], "upper"])
            mandatory = [a for a in h["args"] if p["types"][a["ti"]].kind != "option" and (h["hid"], a["name"]) not in dflt and T.arg_key(a).upper() != T.arg_key(a)]
            if mandatory:
                o = r.call({"prog": pn, "op": op, "doc": wrap(body_text(h, ct))})
                ctx.ev()
                if "ok" in o["res"]:
                    ctx.violate("rename_all_fields:old-keys-accepted", f"{pn} {h['hid']}: lower-case argument keys still accepted", dict(d, doc=wrap(body_text(h, ct)), obs=o["res"]))
        extra = body[:-1] + ("," if h["args"] else "") + "\"zz_extra\":1}"
        o = r.call({"prog": pn, "op": op, "doc": wrap(extra)})
        ctx.ev()
        acc = "ok" in o["res"]
        want = (h["part"], h["kind"]) not in deny
        d = {"prog": pn, "handler": h["hid"], "doc": wrap(extra), "obs": o["res"], "deny_on": sorted(deny)}
        if acc != want:
            ctx.violate("deny_unknown_fields:" + ("not-effective" if want is False else "leaked"),
                        f"{pn} {h['hid']}: body with an unknown member is {'accepted' if acc else 'rejected'} but deny_unknown_fields is {'not ' if want else ''}forwarded to {h['part']}.{h['kind']}", d)
        else:
            ctx.nontrivial([pn, h["hid"], "deny", want])
        # 2. alias
        if h["kind"] in KINDS_ENUM:
            for hid2, al in alias.items():
                doc = "{" + dumps(al) + ":" + body + "}"
                o = r.call({"prog": pn, "op": op, "doc": doc})
                ctx.ev()
                acc = "ok" in o["res"]
                # only the message type owning the aliased handler knows the alias; and then it decodes to that variant
                h2 = next(x for x in handlers(p) if x["hid"] == hid2)
                same_type = (h2["part"], h2["kind"]) == (h["part"], h["kind"])
                if not same_type and acc:
                    ctx.violate("alias:leaked", f"{pn}: alias of {hid2} is accepted by the {h['part']}.{h['kind']} message", {"prog": pn, "doc": doc, "obs": o["res"]})
                if hid2 == h["hid"]:
                    if not acc or T.variant_ident(h["name"]) + " " not in o["res"]["ok"]["debug"] + " ":
                        ctx.violate("alias:not-effective", f"{pn}: alias forwarded from {hid2} is not accepted for its variant: {str(o['res'])[:120]}", {"prog": pn, "doc": doc, "obs": o["res"]})
                    else:
                        ctx.nontrivial([pn, hid2, "alias"])
        # 3. default on arguments
        for i, a in enumerate(h["args"]):
            rest = "{" + ",".join(dumps(akey(x)) + ":" + c for j, (x, c) in enumerate(zip(h["args"], ct)) if j != i) + "}"
            o = r.call({"prog": pn, "op": op, "doc": wrap(rest)})
            ctx.ev()
            acc = "ok" in o["res"]
            is_opt = p["types"][a["ti"]].kind == "option"
            want = (h["hid"], a["name"]) in dflt or is_opt
            d = {"prog": pn, "handler": h["hid"], "arg": a["name"], "doc": wrap(rest), "obs": o["res"]}
            if acc != want:
                ctx.violate("default:" + ("not-effective" if want else "leaked"),
                            f"{pn} {h['hid']}: document without `{a['name']}` is {'accepted' if acc else 'rejected'} although serde(default) is {'' if want else 'not '}written on that argument", d)
            elif (h["hid"], a["name"]) in dflt and not is_opt:
                ctx.nontrivial([pn, h["hid"], a["name"], "default"])
                if len(ctx.samples) < 6:
                    ctx.sample({"program": pn, "handler": h["hid"], "argument_with_default": a["name"], "doc_without_it": wrap(rest), "accepted": acc})


def run(ctx):
    ctx.rule = ("(structure, in-process) unique inert marker attributes on every forwarding route (msg_attr x kind, sv::attr on handlers, attributes on arguments) of generated "
                "programs: each marker must appear exactly once, on the predicted type / variant / field of the parsed expansion; (effect, compiled) serde(deny_unknown_fields) "
                "via msg_attr, serde(alias) via sv::attr, serde(default) on arguments: documents with an extra member / alias name / missing field are accepted exactly where the "
                "attribute was written; non-trivial+distinct = distinct (program, marker, location) and distinct observed effects")
    ctx.assumptions = ["msg_attr(reply, ..) has no message type to land on in this version: expected nowhere"]
    structure(ctx)
    effects(ctx)
