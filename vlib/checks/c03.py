"""C03 — the contract-level message accepts exactly the union of its parts and routes right."""
import json
import re

from .. import types as T
from ..spec import KINDS_ENUM, handlers, part_by_id
from .common import Canon, body_text, canon_args, doc_text, draw_args, dumps
from .c01 import name_mutants


def hostile_docs(rng, prog, kind, h, ct, others):
    """(class, document) pairs derived from one well-formed message.
    `others`: [(handler, doc, body)] of other well-formed messages of this program (any kind/part)."""
    n = T.wire_name(h["name"])
    body = body_text(h, ct)
    doc = doc_text(h, ct)
    out = [("wellformed", doc)]
    for m in name_mutants(rng, n)[:6]:
        out.append(("unknown-name", "{" + dumps(m) + ":" + body + "}"))
    # long documents with multi-byte characters at every offset of an error-text window
    for k in range(96, 136, rng.choice([1, 2, 3])):
        out.append(("unknown-name-long-utf8", "{\"zz_unknown\":{\"memo\":\"" + "a" * k + "\u00e9\u4e2d\U0001F600" * 3 + "\"}}"))
    out.append(("unknown-name-long-utf8", "{" + dumps("\u00e9" * rng.randrange(50, 80)) + ":" + body + "}"))
    other_kind = [o for o in others if o[0]["kind"] != kind]
    same_kind_other_part = [o for o in others if o[0]["kind"] == kind and o[0]["part"] != h["part"]]
    same_kind = [o for o in others if o[0]["kind"] == kind and o[0] is not h]
    for o in other_kind[:3]:
        out.append(("other-kind-name", "{" + dumps(T.wire_name(o[0]["name"])) + ":" + body + "}"))
        out.append(("other-kind-msg", o[1]))
    for at in h.get("sv_attrs", []):
        m = re.match(r'serde\(alias = "([^"]+)"\)$', at)
        if m:
            # a name the owning part accepts through a forwarded serde(alias); shared: a second part accepts it too
            out.append(("alias-shared" if m.group(1) == h.get("shared_alias") else "alias-name", "{" + dumps(m.group(1)) + ":" + body + "}"))
    out.append(("empty-object", "{}"))
    out.append(("two-keys-unknown", "{" + dumps(n) + ":" + body + ",\"zz_unknown\":{}}"))
    out.append(("two-keys-unknown-first", "{\"aa_unknown\":{}," + dumps(n) + ":" + body + "}"))
    for o in same_kind[:2]:
        out.append(("two-keys-valid", "{" + dumps(n) + ":" + body + "," + dumps(T.wire_name(o[0]["name"])) + ":" + o[2] + "}"))
    out.append(("dupkey-top-same", "{" + dumps(n) + ":" + body + "," + dumps(n) + ":" + body + "}"))
    out.append(("dupkey-top-bad-first", "{" + dumps(n) + ":7," + dumps(n) + ":" + body + "}"))
    out.append(("dupkey-top-bad-last", "{" + dumps(n) + ":" + body + "," + dumps(n) + ":7}"))
    if h["args"]:
        a0 = h["args"][0]
        out.append(("dupkey-body", "{" + dumps(n) + ":{" + dumps(T.arg_key(a0)) + ":" + ct[0] + "," + body[1:] + "}"))
        # missing field / wrong-typed field / extra field
        rest = "{" + ",".join(dumps(T.arg_key(a)) + ":" + c for a, c in list(zip(h["args"], ct))[1:]) + "}"
        out.append(("missing-field", "{" + dumps(n) + ":" + rest + "}"))
        wrong = dumps(prog["types"][a0["ti"]].wrong(rng))
        wbody = "{" + ",".join(dumps(T.arg_key(a)) + ":" + (wrong if i == 0 else c) for i, (a, c) in enumerate(zip(h["args"], ct))) + "}"
        out.append(("wrong-typed-field", "{" + dumps(n) + ":" + wbody + "}"))
    for i, (a, c) in enumerate(zip(h["args"], ct)):
        # a struct-typed argument written as the array of its members plus one surplus element
        if c.startswith("{") and len(c) > 2:
            try:
                vals = list(json.loads(c).values())
            except ValueError:
                continue
            seq = dumps(vals + ["99"])
            sbody = "{" + ",".join(dumps(T.arg_key(a2)) + ":" + (seq if j == i else c2) for j, (a2, c2) in enumerate(zip(h["args"], ct))) + "}"
            out.append(("struct-as-long-seq", "{" + dumps(n) + ":" + sbody + "}"))
            break
    out.append(("extra-field", "{" + dumps(n) + ":" + body[:-1] + ("," if h["args"] else "") + "\"zz_extra\":1}}"))
    out.append(("array-body", "{" + dumps(n) + ":[" + ",".join(ct) + "]}"))
    out.append(("null-body", "{" + dumps(n) + ":null}"))
    out.append(("string-body", "{" + dumps(n) + ":\"x\"}"))
    for lit in [dumps(n), "[" + doc + "]", "7", "null", "true", "\"\"", "[]"]:
        out.append(("not-an-object", lit))
    out.append(("trailing-garbage", doc + "x"))
    out.append(("trailing-doc", doc + doc))
    out.append(("truncated", doc[:-1]))
    out.append(("leading-ws", "  \n" + doc + " \n"))
    for o in same_kind_other_part[:2]:
        out.append(("foreign-body", "{" + dumps(T.wire_name(o[0]["name"])) + ":" + body + "}"))
        out.append(("foreign-name-own-body", "{" + dumps(n) + ":" + o[2] + "}"))
    return out


def seq_for_struct(doc, reenc):
    """True if somewhere the document has an array where the wrapper's re-encoding of what it decoded has an object."""
    if isinstance(doc, list) and isinstance(reenc, dict):
        return True
    if isinstance(doc, dict) and isinstance(reenc, dict):
        return any(seq_for_struct(v, reenc[k]) for k, v in doc.items() if k in reenc)
    if isinstance(doc, list) and isinstance(reenc, list):
        return any(seq_for_struct(a, b) for a, b in zip(doc, reenc))
    return False


def check_prog(ctx, r, prog, n_values, skip_classes=()):
    rng = ctx.rng("c03", prog["name"])
    canon = Canon(r, prog)
    pn = prog["name"]
    # a pool of well-formed messages of every part and kind
    pool = []
    for h in handlers(prog):
        if h["kind"] not in KINDS_ENUM:
            continue
        for _ in range(2):
            texts = draw_args(rng, prog, h)
            ct = canon_args(canon, prog, h, texts)
            pool.append((h, doc_text(h, ct), body_text(h, ct)))
    variant_of = {p["id"]: p["variant"] for p in prog["parts"]}
    for kind in KINDS_ENUM:
        parts = [p["id"] for p in prog["parts"]]
        supported = sorted(T.wire_name(h["name"]) for h in handlers(prog, kind=kind))
        hs = list(handlers(prog, kind=kind))
        docs = []
        for h in hs:
            for _ in range(n_values):
                texts = draw_args(rng, prog, h)
                ct = canon_args(canon, prog, h, texts)
                docs += [(h, c, d) for c, d in hostile_docs(rng, prog, kind, h, ct, pool) if c not in skip_classes]
        if not hs:
            # a contract-level message with no handler at all still has to reject everything
            docs = [(None, "no-handlers", d) for d in ["{}", "{\"x\":{}}", "null", "7"]]
            docs += [(None, "other-kind-msg", o[1]) for o in pool[:6]]
        cmds = []
        for h, cls, d in docs:
            for pid in parts:
                cmds.append({"prog": pn, "op": f"parse:{pid}:{kind}", "doc": d})
            cmds.append({"prog": pn, "op": f"parsew:{kind}", "doc": d})
            cmds.append({"prog": pn, "op": f"dispatchw:{kind}", "doc": d, "plan": None})
        outs = r.batch(cmds)
        k = len(parts) + 2
        for i, (h, cls, d) in enumerate(docs):
            chunk = outs[i * k:(i + 1) * k]
            pres, w, dw = chunk[:len(parts)], chunk[len(parts)], chunk[len(parts) + 1]
            ctx.ev()
            ctx.count("docs_" + cls)
            acc = [pid for pid, o in zip(parts, pres) if "ok" in o.get("res", {})]
            detail = {"prog": pn, "kind": kind, "class": cls, "doc": d, "parts_accepting": acc,
                      "wrapper": w, "dispatch_events": [e.get("handler") for e in dw.get("events", [])]}
            if any("panic" in o for o in chunk):
                ctx.violate(f"panic:{cls}", f"{pn} {kind}: decoding panicked on a {cls} document", detail)
                continue
            wacc = "ok" in w.get("res", {})
            sig_cls = cls
            if wacc and not acc:
                try:
                    if seq_for_struct(json.loads(d), json.loads(w["res"]["ok"]["json"])):
                        # whatever class produced the document: an array stands where the decoded message has a struct
                        sig_cls = "seq-for-struct"
                except (ValueError, KeyError, TypeError):
                    pass
            if sig_cls in skip_classes:
                ctx.count("docs_left_to_C03_" + sig_cls)
                continue
            if len(acc) == 1:
                if not wacc:
                    ctx.violate(f"rejects-valid:{sig_cls}", f"{pn} Contract{kind.capitalize()}Msg rejects a document its part {acc[0]} accepts ({cls}): {str(w.get('res'))[:140]}", detail)
                else:
                    po = pres[parts.index(acc[0])]["res"]["ok"]
                    wo = w["res"]["ok"]
                    if wo["debug"] != f"{variant_of[acc[0]]}({po['debug']})":
                        ctx.violate(f"decodes-differently:{sig_cls}", f"{pn} {kind}: wrapper decodes to {wo['debug'][:100]} but part {acc[0]} to {po['debug'][:100]}", detail)
                    if wo["json"] != po["json"]:
                        ctx.violate(f"encodes-differently:{sig_cls}", f"{pn} {kind}: wrapper re-encodes differently from the part", detail)
                    # routing: exactly the handler named by the document, of this kind, in that part
                    evs = [e["handler"] for e in dw.get("events", [])]
                    name = next(iter(json.loads(po["json"]).keys()))
                    exp_h = [h2["hid"] for h2 in handlers(prog, kind=kind, part=acc[0]) if T.wire_name(h2["name"]) == name]
                    if evs != exp_h:
                        ctx.violate(f"misroute:{sig_cls}", f"{pn} {kind}: document for {acc[0]}.{kind}.{name} ran {evs}", detail)
                    ctx.nontrivial([pn, kind, cls, "acc", d])
            else:
                if wacc:
                    ctx.violate(f"accepts-invalid:{sig_cls}", f"{pn} Contract{kind.capitalize()}Msg accepts a {cls} document that {len(acc)} parts accept: {d[:120]}", detail)
                if dw.get("events"):
                    ctx.violate(f"runs-on-invalid:{sig_cls}", f"{pn} {kind}: a rejected {cls} document reached handler {detail['dispatch_events']}", detail)
                if not wacc and cls in ("unknown-name", "other-kind-name") and len(acc) == 0:
                    key = next(iter(json.loads(d).keys()))
                    if key not in supported:
                        msg = w["res"].get("dec_err", "")
                        listed = msg.split("Messages supported by this contract:")[-1] if "Messages supported by this contract:" in msg else msg
                        tokens = {t.strip() for t in listed.replace("\n", " ").split(",")}
                        missing = [s for s in supported if s not in tokens]
                        if "Unsupported message" not in msg or missing:
                            ctx.violate("unknown-name-error", f"{pn} {kind}: error for unknown name `{key}` does not list the supported messages (missing {missing}): {msg[:160]}", detail)
                        ctx.count("unknown_name_errors_checked")
                ctx.nontrivial([pn, kind, cls, "rej", d])
            if cls in ("dupkey-body", "foreign-body") and len(ctx.samples) < 6:
                ctx.sample({"program": pn, "kind": kind, "class": cls, "doc": d, "parts_accepting": acc,
                            "wrapper_accepts": wacc, "wrapper_error": w["res"].get("dec_err")})


def run(ctx):
    ctx.rule = ("per program and kind: every well-formed message of every part plus ~35 hostile documents derived from it "
                "(unknown / other-kind names, zero / two / duplicated keys, non-objects, wrong bodies, trailing bytes); the oracle is "
                "differential: wrapper accepts <=> exactly one part accepts; non-trivial+distinct = distinct (program, kind, class, document)")
    ctx.assumptions = ["supported names = names the parts themselves serialise under (C01)"]
    fam = ctx.family("general")
    n = ctx.pick(2, 16)

    def per_bin(b, progs, r):
        for p in progs:
            check_prog(ctx, r, p, n)
    fam.each_bin(per_bin)
    ctx.cov["programs"] = len(fam.progs)
    # a slice of the corpus built in the release profile (no debug assertions / overflow checks): what gets deployed
    rel = ctx.family("release")
    rel.each_bin(lambda b, progs, r: [check_prog(ctx, r, p, n) for p in progs])
    ctx.cov["release_profile_programs"] = len(rel.progs)
    # handlers taking 128-bit primitives: their JSON numbers may lie beyond the 64-bit range
    # programs with forwarded serde attributes that change what the parts accept (aliases, deny_unknown_fields, defaults)
    attrs = ctx.family("attrs")
    attrs.each_bin(lambda b, progs, r: [check_prog(ctx, r, p, max(1, n // 2)) for p in progs])
    ctx.cov["attr_effect_programs"] = len(attrs.progs)
    wide = ctx.family("wide")
    wctx = WideCtx(ctx)
    wide.each_bin(lambda b, progs, r: [check_prog(wctx, r, p, n) for p in progs])
    ctx.cov["wide_programs"] = len(wide.progs)


BIG_INT = re.compile(r"(?<![\w.\"])-?\d{19,}(?![\w.\"])")


class WideCtx:
    """The context of the `wide` programs: a disagreement on a document that carries an integer literal outside the
    64-bit range, or that the wrapper refuses with its 128-bit diagnostics, gets one signature of its own (so that the
    recorded finding covers exactly that and nothing else)."""

    def __init__(self, ctx):
        self._ctx = ctx

    def __getattr__(self, name):
        return getattr(self._ctx, name)

    def violate(self, signature, what, detail):
        doc = (detail or {}).get("doc") or ""
        big = [int(x) for x in BIG_INT.findall(doc)]
        err = json.dumps((detail or {}).get("wrapper") or "") + what
        if any(v >= 2**64 or v < -2**63 for v in big) or re.search(r"[ui]128 is not supported|Invalid number", err):
            self._ctx.count("documents_with_128_bit_integers_disagreeing")
            return self._ctx.violate("wide-int-128-bit-argument", what, detail)
        return self._ctx.violate(signature, what, detail)
