"""C04 — handlers are reachable only through the entry point of their own kind."""
import base64
import json

from .. import types as T
from ..spec import EP_OF, KINDS_ENUM, handlers
from .common import Canon, canon_args, doc_text, draw_args, draw_env, draw_info, draw_world, dumps

ALL_KINDS = ["instantiate", "exec", "query", "sudo", "migrate"]


def kind_of_event(e):
    return e["handler"].split(".")[1]


def check_prog(ctx, r, prog, n_values, reply_too=False):
    rng = ctx.rng("c04", prog["name"])
    canon = Canon(r, prog)
    pn = prog["name"]
    have = {k for k in ALL_KINDS if any(True for _ in handlers(prog, kind=k))}
    ov = {o["kind"] for o in prog.get("overrides", [])}
    # generated entry points exist per configuration; the multitest Contract impl always has all six
    eps_ep = [k for k in ["instantiate", "exec", "query", "sudo"] + (["migrate"] if "migrate" in have else []) if k not in ov]
    has_reply = any(True for _ in handlers(prog, kind="reply"))
    if has_reply and "reply" not in ov:
        eps_ep.append("reply")
    eps = ["instantiate", "exec", "query", "sudo", "migrate"] + (["reply"] if (reply_too or has_reply) else [])
    docs = []
    for h in handlers(prog):
        if h["kind"] == "reply":
            continue
        for _ in range(n_values):
            texts = draw_args(rng, prog, h)
            ct = canon_args(canon, prog, h, texts)
            docs.append((h, doc_text(h, ct)))
    # a serialised Reply is a document too
    reply_doc = dumps({"id": 0, "payload": "", "gas_used": 1, "result": {"ok": {"events": [], "data": None, "msg_responses": []}}})
    docs.append(({"kind": "reply", "hid": "<reply struct>", "name": "id", "args": []}, reply_doc))
    if ov:
        # the message of user-written (overriding) entry points is a document as well
        for k in sorted(ov):
            if k != "reply":
                docs.append(({"kind": k, "hid": f"<override {k}>", "name": "tag", "args": []}, dumps({"tag": rng.randrange(1000)})))
    cmds, meta = [], []
    for h, d in docs:
        for k2 in eps:
            if k2 == h["kind"]:
                continue
            world, env, info = draw_world(rng), draw_env(rng), draw_info(rng)
            if k2 == "reply":
                for form in ("payload", "data"):
                    b64 = base64.b64encode(d.encode()).decode()
                    rep = {"id": rng.choice([0, 1, 2, 3]), "payload": b64 if form == "payload" else "", "gas_used": 5,
                           "result": {"ok": {"events": [], "data": b64 if form == "data" else None, "msg_responses": []}}}
                    for path in ("ep", "mtc"):
                        if path == "ep" and k2 not in eps_ep:
                            continue
                        cmds.append({"prog": pn, "op": f"{path}:reply", "reply": rep, "world": world, "env": env})
                        meta.append((h, d, k2, path))
                continue
            for path in ("ep", "mtc"):
                if path == "ep" and k2 not in eps_ep:
                    continue
                cmds.append({"prog": pn, "op": f"{path}:{EP_OF[k2]}", "doc": d, "world": world, "env": env, "info": info,
                             "plan": ({"ok": "0"} if k2 == "query" else None)})
                meta.append((h, d, k2, path))
    outs = r.batch(cmds)
    pair_seen = set()
    for (h, d, k2, path), o in zip(meta, outs):
        ctx.ev()
        k1 = h["kind"]
        evs = o.get("events", [])
        detail = {"prog": pn, "sent": h["hid"], "doc": d, "entry_point": k2, "path": path,
                  "events": [e["handler"] for e in evs], "res": o.get("res"), "panic": o.get("panic")}
        foreign = [e["handler"] for e in evs if kind_of_event(e) != k2]
        if foreign:
            ctx.violate(f"cross-kind:{k1}->{k2}", f"{pn}: a {k1} message sent to the {k2} entry point ran {foreign}", detail)
            continue
        if len(evs) > 1:
            ctx.violate(f"multi:{k1}->{k2}", f"{pn}: one document ran {len(evs)} handlers at {k2}", detail)
            continue
        if "panic" in o:
            ctx.violate(f"panic:{k1}->{k2}", f"{pn}: {k2} entry point panicked on a {k1} document: {o['panic'][:100]}", detail)
            continue
        if evs and k2 in KINDS_ENUM and not evs[0]["handler"].startswith("ov."):
            # the K2 model: the handler is the K2 handler named by the document's only key
            try:
                keys = list(json.loads(d).keys())
            except Exception:
                keys = []
            name = T.wire_name(evs[0]["handler"].split(".")[2])
            if keys != [name]:
                ctx.violate(f"model:{k1}->{k2}", f"{pn}: {k2} ran {evs[0]['handler']} for a document whose key is {keys}", detail)
        ctx.count("ran_same_named" if evs else "rejected")
        ctx.nontrivial([pn, k1, k2, path, d])
        pair_seen.add((k1, k2))
        if evs and len(ctx.samples) < 5:
            ctx.sample({"program": pn, "sent_as": h["hid"], "doc": d, "entry_point": k2, "ran": evs[0]["handler"],
                        "note": "allowed: a handler of the receiving kind with the same name/shape"})
    return pair_seen


def run(ctx):
    ctx.rule = ("every well-formed message of kind K1 (and a serialised Reply) is sent as raw bytes to every other entry point K2 through "
                "entry_points::<k2> and through the generated cw_multi_test::Contract impl; a refuting event is any logged handler whose kind "
                "is not K2; non-trivial+distinct = distinct (program, K1, K2, path, document)")
    ctx.assumptions = ["programs reuse names and argument shapes across kinds and parts on purpose"]
    fam = ctx.family("general")
    n = ctx.pick(3, 30)
    pairs = set()

    def per_bin(b, progs, r):
        s = set()
        for p in progs:
            s |= check_prog(ctx, r, p, n)
        return s
    for s in fam.each_bin(per_bin):
        pairs |= s
    for famname in ("epcfg", "generic"):
        xf = ctx.family(famname)
        for s in xf.each_bin(lambda b, progs, r: set().union(*[check_prog(ctx, r, p, max(1, n // 3)) for p in progs])):
            pairs |= s
        ctx.cov[famname + "_programs"] = len(xf.progs)
    rf = ctx.family("replies")

    def per_bin_r(b, progs, r):
        s = set()
        for p in progs:
            s |= check_prog(ctx, r, p, max(1, n // 3), reply_too=True)
        return s
    for s in rf.each_bin(per_bin_r):
        pairs |= s
    ctx.cov["reply_programs"] = len(rf.progs)
    ctx.cov["kind_pairs_observed"] = sorted(f"{a}->{b}" for a, b in pairs)
    ctx.cov["programs"] = len(fam.progs)
