"""C12 — multitest proxies are equivalent to sending the raw JSON message."""
import base64
import hashlib
import json

from ..spec import handlers, part_by_id
from .common import Canon, bech32_encode, canon_args, doc_text, draw_args, dumps
from .c02 import expected_err, strip_display

ACCOUNTS = ["alice", "bob", "carol", "admin", "nobody"]


def addr_of(name):
    return bech32_encode("cosmwasm", hashlib.sha256(name.encode()).digest())


def b64s(s):
    return base64.b64encode(s.encode()).decode()


def draw_funds(rng, rich=True):
    c = rng.random()
    if c < 0.45:
        return None
    if c < 0.55 and not rich:
        return [{"denom": "uatom", "amount": str(10**30)}]  # more than anybody owns
    if c < 0.6:
        # a coin of amount zero next to a real one: the handler sees the list as given
        return [{"denom": "uatom", "amount": str(rng.randrange(1, 500))}, {"denom": "ujuno", "amount": "0"}][::rng.choice([1, -1])]
    if c < 0.7:
        # the same denom listed twice, or denoms out of order: the handler must see the coins as given
        return [{"denom": d, "amount": str(rng.randrange(1, 500))} for d in rng.choice([["uatom", "uatom"], ["ujuno", "uatom"], ["uatom", "ujuno", "uatom"]])]
    return [{"denom": d, "amount": str(rng.randrange(1, 1000))} for d in rng.sample(["uatom", "ujuno"], rng.choice([1, 2]))]


def draw_mt_response(rng, prog, accounts):
    attrs = [{"key": "k" + str(i), "value": "v" + str(rng.randrange(1000))} for i in range(rng.choice([0, 1, 2]))]
    events = [{"type": "ev" + str(i), "attributes": [{"key": "ek", "value": str(rng.randrange(100))}]} for i in range(rng.choice([0, 1, 2]))]
    msgs = []
    if rng.random() < 0.3:
        msgs.append({"id": 0, "payload": "", "gas_limit": None, "reply_on": "never",
                     "msg": {"bank": {"send": {"to_address": rng.choice(accounts), "amount": [{"denom": "uatom", "amount": str(rng.randrange(1, 50))}]}}}})
    data = None if rng.random() < 0.5 else base64.b64encode(bytes(rng.randrange(256) for _ in range(rng.choice([1, 4, 20])))).decode()
    return {"messages": msgs, "attributes": attrs, "events": events, "data": data}


def draw_plan(rng, prog, h, canon, accounts):
    c = rng.random()
    if c < 0.65:
        if h["kind"] == "query":
            t = dumps(prog["types"][h["resp_ti"]].gen(rng))
            return {"ok": t}, "ok"
        return {"ok": dumps(draw_mt_response(rng, prog, accounts))}, "ok"
    if c < 0.85:
        return {"err_own": rng.randrange(1, 10**6)}, "err"
    return {"err_std": "planned " + str(rng.randrange(10**6))}, "err"


class History:
    def __init__(self, ctx, r, prog, hid, rng):
        self.ctx, self.r, self.prog, self.rng = ctx, r, prog, rng
        self.pn = prog["name"]
        self.flags = {"m": prog["custom"]["msg"], "q": prog["custom"]["query"]}
        self.A, self.B = 2 * hid, 2 * hid + 1
        self.accounts = [addr_of(a) for a in ACCOUNTS]
        self.contracts = []   # (addr, admin)
        self.codes = []
        self.trace = []
        self.dead = False
        self.canon = Canon(r, prog)
        bal = [[a, [{"denom": "uatom", "amount": "1000000"}, {"denom": "ujuno", "amount": "500000"}]] for a in self.accounts[:4]]
        for w in (self.A, self.B):
            r.call(dict(self.flags, prog="mt", op="new", world=w, balances=bal))

    def violate(self, sig, what, extra=None):
        d = {"prog": self.pn, "history": self.trace[-12:]}
        if extra:
            d.update(extra)
        self.ctx.violate(sig, f"{self.pn}: {what}", d)
        self.dead = True

    def both(self, step, ca, cb, kind, planned_err=None, h=None, plan=None):
        """Runs the proxy command on world A and the raw command on world B and compares."""
        oa = self.r.call(dict(ca, prog=self.pn, world=self.A, plan=plan))
        ob = self.r.call(dict(cb, prog="mt", world=self.B, plan=plan, **self.flags))
        self.ctx.ev()
        ra, rb = oa.get("res", {}), ob.get("res", {})
        a_ok = "ok" in ra
        a_panic = "panic" in oa
        b_ok = "ok" in rb
        if "panic" in ob:
            raise RuntimeError(f"raw side panicked: {ob}")
        self.trace.append({"step": step, "proxy_cmd": {k: v for k, v in ca.items() if k != "prog"}, "raw_cmd": {k: v for k, v in cb.items() if k != "prog"},
                           "plan": plan, "proxy": (oa.get("panic") and {"panic": oa["panic"][:200]}) or ra, "raw": rb})
        if a_ok != b_ok:
            self.violate(f"outcome-differs:{kind}", f"{kind} step {step}: proxy {'succeeds' if a_ok else 'fails'} but raw JSON {'succeeds' if b_ok else 'fails'}: "
                         f"proxy={str(oa.get('panic') or ra)[:140]} raw={str(rb)[:140]}")
            return None, None
        ea = [{k: e.get(k) for k in ("handler", "args", "info")} for e in oa.get("events", [])]
        eb = [{k: e.get(k) for k in ("handler", "args", "info")} for e in ob.get("events", [])]
        if ea != eb:
            self.violate(f"handler-saw-differently:{kind}", f"{kind} step {step}: the handler saw {json.dumps(ea)[:200]} through the proxy but {json.dumps(eb)[:200]} through raw JSON")
            return None, None
        if a_ok:
            self.ctx.count(f"{kind}_ok")
            return ra["ok"], rb["ok"]
        # both failed
        if planned_err is not None and rb["err"].get("ty") != "anyhow" and "planned" not in str(rb)[:0]:
            pass
        handler_failed = planned_err is not None and self._raw_is_handler_error(rb, planned_err)
        if handler_failed:
            if a_panic:
                self.violate(f"handler-error-panics:{kind}", f"{kind} step {step}: handler error made the proxy panic: {oa['panic'][:120]}")
            elif kind == "query":
                if planned_err.get("generic", "") and planned_err["generic"] not in ra["err"].get("display", "") and str(planned_err.get("custom", "")) not in ra["err"].get("display", ""):
                    self.violate("query-error-text", f"query step {step}: proxy error `{ra['err'].get('display','')[:100]}` does not carry the handler's error")
                elif rb["err"].get("ty") == "querier" and ra["err"].get("display") != "Generic error: Querier contract error: " + rb["err"].get("display", ""):
                    # same result as the raw smart query: the contract's error text as the chain's querier reports it, which
                    # cosmwasm_std's QuerierWrapper turns into generic_err("Querier contract error: <text>")
                    self.violate("query-error-differs", f"query step {step}: proxy fails with `{ra['err'].get('display','')[:120]}` but the raw smart query with "
                                 f"`{rb['err'].get('display','')[:120]}` (expected `Generic error: Querier contract error: ` + that text)")
                else:
                    self.ctx.count("query_error_texts_equal")
            elif strip_display(ra["err"]) != planned_err:
                self.violate(f"handler-error-value:{kind}", f"{kind} step {step}: proxy returned {json.dumps(strip_display(ra['err']))[:140]} but the handler returned {json.dumps(planned_err)[:140]}")
            self.ctx.count(f"{kind}_handler_err")
        else:
            self.ctx.count(f"{kind}_chain_err" + ("_proxy_panicked" if a_panic else ""))
        return None, None

    def _raw_is_handler_error(self, rb, planned_err):
        e = strip_display(rb["err"])
        return e == planned_err or (planned_err.get("generic") and planned_err["generic"] in rb["err"].get("display", "")) \
            or ("custom" in planned_err and f"custom error {planned_err['custom']}" in rb["err"].get("display", ""))

    def compare_state(self, step):
        cmd = {"op": "state", "contracts": [c[0] for c in self.contracts], "accounts": self.accounts + [c[0] for c in self.contracts]}
        sa = self.r.call(dict(cmd, prog="mt", world=self.A, **self.flags))["res"]["ok"]
        sb = self.r.call(dict(cmd, prog="mt", world=self.B, **self.flags))["res"]["ok"]
        if sa != sb:
            diff = {k: (sa[k], sb[k]) for k in sa if sa[k] != sb[k]}
            self.violate("state-differs", f"chain state differs after step {step}: {json.dumps(diff)[:300]}", {"diff": diff})
            return False
        tot = {}
        for acc, coins in sa["balances"].items():
            for c in coins or []:
                tot[c["denom"]] = tot.get(c["denom"], 0) + int(c["amount"])
        if tot.get("uatom", 0) != 4 * 1000000 or tot.get("ujuno", 0) != 4 * 500000:
            self.violate("supply", f"bank supply not conserved after step {step}: {tot}")
            return False
        return True

    # ------------------------------------------------------------------ steps
    def step_store(self, step):
        a = self.r.call({"prog": self.pn, "op": "mt:store", "world": self.A})["res"]["ok"]["code_id"]
        b = self.r.call({"prog": self.pn, "op": "mt:store_raw", "world": self.B})["res"]["ok"]["code_id"]
        self.ctx.ev()
        self.trace.append({"step": step, "store": [a, b]})
        if a != b:
            self.violate("code-id", f"store_code gives code id {a} through the helper but {b} raw")
            return
        self.codes.append(a)

    def step_instantiate(self, step):
        rng, prog = self.rng, self.prog
        inst = [h for h in handlers(prog, kind="instantiate")][0]
        texts = draw_args(rng, prog, inst)
        ct = canon_args(self.canon, prog, inst, texts)
        doc = doc_text(inst, ct)
        code = rng.choice(self.codes) if rng.random() < 0.95 else 9999
        label = rng.choice([None, "lbl" + str(step), "Contract", "a b c", " lead" + str(step), "trail   ", "\tboth\n", "Ü" + str(step)])
        admin = rng.choice([None, self.accounts[3], self.accounts[3], self.accounts[0]])
        funds = draw_funds(rng, rich=rng.random() < 0.9)
        salt = rng.choice([None, None, None, base64.b64encode(bytes(rng.randrange(256) for _ in range(rng.choice([0, 1, 8, 32, 63, 64, 64, 65])))).decode()])
        sender = rng.choice(self.accounts[:4])
        plan, cls = draw_plan(rng, prog, inst, self.canon, self.accounts)
        factory = False
        if cls == "ok" and code != 9999 and rng.random() < 0.25:
            # a factory: the instantiate handler instantiates a child of the same code, so the response carries two
            # `instantiate` events; the handle returned by the proxy must still be the contract that was asked for
            child_texts = draw_args(rng, prog, inst)
            child_doc = doc_text(inst, canon_args(self.canon, prog, inst, child_texts))
            resp = json.loads(plan["ok"])
            resp["messages"].append({"id": 0, "payload": "", "gas_limit": None, "reply_on": "never",
                                     "msg": {"wasm": {"instantiate": {"admin": None, "code_id": code, "msg": b64s(child_doc), "funds": [], "label": "child"}}}})
            plan = {"ok": dumps(resp), "once": True}
            factory = True
        ca = {"op": "mtp:instantiate", "code_id": code, "args": texts, "label": label, "admin": admin, "funds": funds, "salt": salt, "sender": sender}
        if rng.random() < 0.3:
            # setters called repeatedly: only the last value counts (None clears the admin again)
            ca["admin_seq"] = [rng.choice([self.accounts[1], self.accounts[3], None]) for _ in range(rng.choice([1, 2]))]
            ca["label_seq"] = ["old label"] if label is not None else []
            ca["funds_seq"] = [[{"denom": "ujuno", "amount": "3"}]] if funds is not None else []
        if code == 9999:
            return  # a CodeId handle for an unknown code cannot be built through the helper
        key = "instantiate2" if salt is not None else "instantiate"
        wm = {"admin": admin, "code_id": code, "msg": b64s(doc), "funds": funds or [], "label": label if label is not None else "Contract"}
        if salt is not None:
            wm["salt"] = salt
        cb = {"op": "raw:execute", "sender": sender, "msg": {"wasm": {key: wm}}}
        perr = expected_err(prog, part_by_id(prog, "c"), inst, plan) if cls == "err" else None
        ra, rb = self.both(step, ca, cb, "instantiate", perr, inst, plan)
        if ra is None:
            return
        # the contract the raw message created: the first `instantiate` event (events of sub-messages follow it), which is
        # also the address in the response data (MsgInstantiateContractResponse, field 1)
        addr_b = None
        for ev in rb["events"]:
            if ev["type"] == "instantiate" and addr_b is None:
                for at in ev["attributes"]:
                    if at["key"] == "_contract_address":
                        addr_b = at["value"]
        if rb.get("data"):
            raw = base64.b64decode(rb["data"])
            if raw[:1] == b"\x0a":
                ln = raw[1]
                from_data = raw[2:2 + ln].decode() if ln < 128 else None
                if from_data is not None and from_data != addr_b:
                    self.violate("harness-address", f"step {step}: raw chain reports {addr_b} in the event but {from_data} in the response data")
                    return
        if factory:
            self.ctx.count("factory_instantiations" + ("_salted" if salt is not None else ""))
        if ra["addr"] != addr_b:
            self.violate("instantiate-address", f"step {step}: proxy says the new contract is {ra['addr']} but the raw chain instantiated {addr_b}")
            return
        self.contracts.append((ra["addr"], admin))
        self.ctx.nontrivial([self.pn, "inst", label, admin, bool(funds), bool(salt), doc])

    def step_call(self, step):
        rng, prog = self.rng, self.prog
        if not self.contracts:
            return
        addr, admin = rng.choice(self.contracts)
        cands = [h for h in handlers(prog) if h["safe"] and h["kind"] in ("exec", "query", "sudo", "migrate") and not h.get("resp_literal")]
        if not cands:
            return
        h = rng.choice(cands)
        texts = draw_args(rng, prog, h)
        ct = canon_args(self.canon, prog, h, texts)
        doc = doc_text(h, ct)
        plan, cls = draw_plan(rng, prog, h, self.canon, self.accounts)
        perr = expected_err(prog, part_by_id(prog, h["part"]), h, plan) if cls == "err" else None
        sender = rng.choice(self.accounts[:4])
        k = h["kind"]
        ca = {"op": "mtp:" + h["hid"], "addr": addr, "args": texts}
        if k == "exec":
            funds = draw_funds(rng, rich=rng.random() < 0.9)
            ca.update(funds=funds, sender=sender)
            cb = {"op": "raw:execute", "sender": sender, "msg": {"wasm": {"execute": {"contract_addr": addr, "msg": b64s(doc), "funds": funds or []}}}}
        elif k == "query":
            cb = {"op": "raw:query", "addr": addr, "doc": doc}
        elif k == "sudo":
            cb = {"op": "raw:sudo", "addr": addr, "doc": doc}
        else:
            with_admin = [c for c in self.contracts if c[1]]
            if with_admin and rng.random() < 0.8:
                addr, admin = rng.choice(with_admin)
                ca["addr"] = addr
            sender = admin if (admin and rng.random() < 0.8) else sender
            code = rng.choice(self.codes)
            ca.update(sender=sender, new_code_id=code)
            cb = {"op": "raw:execute", "sender": sender, "msg": {"wasm": {"migrate": {"contract_addr": addr, "new_code_id": code, "msg": b64s(doc)}}}}
        ra, rb = self.both(step, ca, cb, k, perr, h, plan)
        if ra is None:
            return
        if k == "query":
            want = self.canon.one(h["resp_ti"], plan["ok"])["ok"]
            if ra["text"] != rb["text"] or ra["text"] != want:
                self.violate("query-value", f"step {step}: proxy query returned {ra['text'][:100]}, raw {rb['text'][:100]}, handler {want[:100]}")
                return
        if k == "exec" and ra.get("data") is not None:
            # cw-multi-test's execute_contract (what the proxy calls) unwraps the MsgExecuteContractResponse
            # envelope that Router::execute returns; re-wrap with the independent encoder before comparing
            from .replies import exec_envelope
            ra = dict(ra, data=base64.b64encode(exec_envelope(base64.b64decode(ra["data"]))).decode())
        if k != "query" and ra != rb:
            self.violate(f"response-differs:{k}", f"step {step}: proxy response {json.dumps(ra)[:160]} != raw response {json.dumps(rb)[:160]}")
            return
        self.ctx.nontrivial([self.pn, h["hid"], cls, doc, sender])

    def run(self, n_steps):
        self.step_store(0)
        if self.dead:
            return
        for step in range(1, n_steps + 1):
            if self.dead:
                return
            c = self.rng.random()
            if c < 0.07:
                self.step_store(step)
            elif c < 0.3 or not self.contracts:
                self.step_instantiate(step)
            else:
                self.step_call(step)
            if not self.dead and not self.compare_state(step):
                return
        if not self.dead and len(self.ctx.samples) < 3 and len(self.trace) > 5:
            self.ctx.sample({"program": self.pn, "history_excerpt": self.trace[1:5]})


def run(ctx):
    ctx.rule = ("two identically seeded cw-multi-test chains per history: chain A is driven through CodeId::store_code, the instantiate proxy (label/admin/funds/salt), exec/query/sudo/migrate "
                "proxy methods of contract and interfaces; chain B receives the predicted JSON through WasmMsg::{Instantiate,Instantiate2,Execute,Migrate}, WasmSudo and WasmQuery::Smart; "
                "after every step results and full chain state (contract storage dumps, contract metadata, balances) are compared; "
                "non-trivial+distinct = distinct successful or handler-failed steps (program, method, outcome class, document, sender)")
    ctx.assumptions = ["only methods with helper-safe names are driven through proxies (proxy method names are not pinned by the statement)",
                       "a proxy that panics in its own unwrap() on a chain-level (non-handler) failure is counted as a failure and tallied, as the statement pins handler errors only",
                       "the instantiate proxy's default label is taken to be \"Contract\""]
    fam = ctx.family("general")
    n_hist = ctx.pick(1, 6)
    n_steps = ctx.pick(25, 60)
    max_progs = ctx.pick(2, 12)

    def per_bin(b, progs, r):
        hid = 0
        for p in progs[:max_progs]:
            for hnum in range(n_hist):
                hid += 1
                History(ctx, r, p, hid, ctx.rng("c12", p["name"], hnum)).run(n_steps)
    fam.each_bin(per_bin)
    gen = ctx.family("generic")
    gen.each_bin(per_bin)
    ctx.cov["generic_programs"] = len(gen.progs)
    ctx.cov["histories"] = sum(min(len(v), max_progs) for v in fam.bins().values()) * n_hist
