"""C15 — generated message types carry exactly the generic parameters they use."""
import json
import re

from .. import families_extra, inproc_engine, render, spec
from ..families import build_family
from ..spec import used_params
from . import c01, c02

MSG_OF = render.MSG_OF
KINDS_C = ["instantiate", "exec", "query", "sudo", "migrate"]
KINDS_I = ["exec", "query", "sudo"]


def split_top(text):
    """Splits a generic argument list at top-level commas."""
    out, depth, cur = [], 0, ""
    for ch in text:
        if ch == "<":
            depth += 1
        elif ch == ">":
            depth -= 1
        if ch == "," and depth == 0:
            out.append(cur)
            cur = ""
        else:
            cur += ch
    out.append(cur)
    return out


def api_alias_mismatches(view):
    """[(impl trait, self type, line, named arguments, declared parameters)] for every `type X = Target<..>` of a
    ContractApi / InterfaceApi / InterfaceMessagesApi impl whose argument names are not the parameters of `Target`
    (an enum, struct or alias of the same `sv` module) in that type's own order."""
    decl = {it["name"]: it["generics"]["params"] for it in view if it["k"] in ("enum", "struct", "type") and it["path"] == "::sv"}
    out = []
    for it in view:
        if it["k"] != "impl" or not re.search(r"(ContractApi|InterfaceMessagesApi|InterfaceApi)\s*$", it.get("trait") or ""):
            continue
        for tl in it["types"]:
            m_ = re.match(r"type (\w+) = (\w+) < (.*)> ;$", tl.strip())
            if not m_ or m_.group(2) not in decl:
                continue
            names = [a.strip().split("::")[-1].strip() for a in split_top(m_.group(3)) if a.strip()]
            if names != decl[m_.group(2)]:
                out.append((it["trait"], it["self_ty"], tl, names, decl[m_.group(2)]))
    return out


def observe(ctx, progs, label):
    """Expands every program in-process; returns {prog name: {part id: {kind: [param names]}}} and checks them against the spec."""
    jobs = []
    for p in progs:
        R = render.R(p)
        jobs.append((p["name"] + "_c", "contract", None, R.contract_item(), True))
        for part in p["parts"][1:]:
            jobs.append((f"{p['name']}_{part['id']}", "interface", None, R.iface_item(part), True))
    res = inproc_engine.run_jobs(ctx, label, jobs)
    out = {}
    for p in progs:
        ok = True
        obs = {}
        for part in p["parts"]:
            r = res[f"{p['name']}_{part['id']}"]
            if r["status"] != "clean":
                ctx.violate("generic-program-rejected", f"{p['name']} part {part['id']}: valid generic program expands {r['status']} {r.get('panic','')[:80]}",
                            {"prog": p["name"], "part": part["id"], "result": {k: v for k, v in r.items() if k != 'view'}})
                ok = False
                continue
            prefix = "" if part["id"] == "c" else part["trait"]
            kinds = KINDS_C if part["id"] == "c" else KINDS_I
            types = {it["name"]: it for it in r["view"] if it["k"] in ("enum", "struct") and it["path"] == "::sv"}
            aliases = {it["name"]: it for it in r["view"] if it["k"] == "type" and it["path"] == "::sv"}
            obs[part["id"]] = {}
            for k in kinds:
                tname = prefix + MSG_OF[k]
                it = types.get(tname)
                exp = used_params(p, part, k)
                has = any(h["kind"] == k for h in part["handlers"]) or k in ("exec", "query", "sudo")
                if it is None:
                    if has:
                        ctx.violate("message-type-missing", f"{p['name']}: no {tname} generated", {"prog": p["name"], "types": sorted(types)})
                        ok = False
                    continue
                got = it["generics"]["params"]
                ctx.ev()
                d = {"prog": p["name"], "part": part["id"], "kind": k, "type": tname, "observed_params": got, "expected_params": exp,
                     "generics": p.get("generics"), "assoc": part.get("assoc")}
                if sorted(got) != sorted(exp) or len(set(got)) != len(got):
                    ctx.violate(f"params:{'missing' if set(exp) - set(got) else 'extra'}:{k}",
                                f"{p['name']}: {tname} is parameterised by {got} but its handlers use {exp}", d)
                    ok = False
                else:
                    obs[part["id"]][k] = got
                    if exp:
                        ctx.nontrivial([p["name"], part["id"], k, exp])
                    ctx.count("message_types_checked")
                # no inline bounds / where clause may mention a parameter the type does not have
                scope = set(got)
                allp = {g["name"] for g in p.get("generics", [])} if part["id"] == "c" else ({n for n, _ in part.get("assoc", [])} | set(part.get("special_params", {})))
                for w in it["generics"]["where"] + it["generics"]["inline_bounds"]:
                    toks = set(w.replace("<", " ").replace(">", " ").replace(",", " ").replace(":", " ").replace("(", " ").replace(")", " ").split())
                    stray = (toks & allp) - scope
                    if stray:
                        ctx.violate("bound-mentions-other-param", f"{p['name']}: {tname} carries bound `{w}` mentioning {sorted(stray)}", d)
                        ok = False
                if part["id"] != "c" and tname in types:
                    al = aliases.get(MSG_OF[k])
                    if al is None or al["generics"]["params"] != got:
                        ctx.violate("alias-params", f"{p['name']}: alias {MSG_OF[k]} of {tname} has parameters {al and al['generics']['params']}", d)
            # the Api impls name every message type with its arguments in the type's own parameter order
            for it in r["view"]:
                if it["k"] != "impl" or not re.search(r"(ContractApi|InterfaceMessagesApi|InterfaceApi)\s*$", it.get("trait") or ""):
                    continue
                for tl in it["types"]:
                    m_ = re.match(r"type (\w+) = (\w+) < (.*)> ;$", tl.strip())
                    if not m_:
                        continue
                    alias_name, target, args = m_.group(1), m_.group(2), m_.group(3)
                    kind_of = {v: k for k, v in MSG_OF.items()}
                    if target not in kind_of or kind_of[target] not in obs[part["id"]]:
                        continue
                    names = [a.strip().split("::")[-1].strip() for a in split_top(args) if a.strip()]
                    want = obs[part["id"]][kind_of[target]]
                    ctx.ev()
                    if names != want:
                        ctx.violate("api-argument-order", f"{p['name']}: `{it['trait']}` for `{it['self_ty'][:40]}` names {target}<{', '.join(names)}> but the type is declared {target}<{', '.join(want)}>",
                                    {"prog": p["name"], "part": part["id"], "impl": it["trait"], "self": it["self_ty"], "line": tl, "declared": want})
                        ok = False
                    elif len(want) >= 2:
                        ctx.nontrivial([p["name"], part["id"], it["trait"][-24:], target, want])
                        ctx.count("api_aliases_with_two_or_more_arguments")
            if part["id"] == "c":
                allg = ([p["lifetime"]] if p.get("lifetime") else []) + [g["name"] for g in p.get("generics", [])]
                for wk in ("ContractExecMsg", "ContractQueryMsg", "ContractSudoMsg"):
                    it = types.get(wk)
                    if it is not None and it["generics"]["params"] != allg:
                        ctx.violate("wrapper-params", f"{p['name']}: {wk} has parameters {it['generics']['params']} expected all of {allg}", {"prog": p["name"]})
        if ok:
            out[p["name"]] = obs
        if len(ctx.samples) < 4 and ok and p.get("generics"):
            ctx.sample({"program": p["name"], "contract_parameters": [g["name"] for g in p["generics"]],
                        "observed_message_parameters": obs.get("c")})
    return out


def run(ctx):
    ctx.rule = ("generic contracts (1-4 type parameters used directly, nested in Option/Vec/tuple/map, only in a query response, or not at all; a bound relating two parameters) "
                "and interfaces with associated types: (in-process) the parameter list of every generated message type and alias vs the parameters occurring in its handlers; "
                "(compiled) glue that names every message type with exactly the observed parameters instantiated with distinct concrete types, then the C01 and C02 monitors on them; "
                "non-trivial+distinct = distinct (program, part, kind) with >=1 parameter, plus the monitors' own cases")
    ctx.assumptions = ["one `Ident: Bounds` predicate per type parameter (sylvia derives helper-trait items from them; other where-clause shapes do not compile)",
                       "a parameter whose predicate mentions another parameter is not used in instantiate without it (the instantiate builder needs its Serialize bound)"]
    # (1) many specs in-process
    n = ctx.pick(150, 2500)
    # every fourth contract names one of its type parameters as its error type (`#[sv::error(ErrT)]`): it occurs in every
    # result type and in no argument or response, so no message carries it (in-process only: `entry_points` cannot name
    # a generic error type, so such a contract has no compiled twin in the corpus)
    progs = [spec.gen_generic_program(ctx.rng("c15", i), f"q{i:04d}", generic_error=(i % 4 == 3)) for i in range(n)]
    observe(ctx, progs, "c15a")
    ctx.cov["inproc_generic_programs"] = n
    ctx.cov["inproc_programs_with_generic_error_type"] = sum(1 for p in progs if p["error"] == "ErrT")
    # (2) compiled family, glue written with the observed parameter order
    by_bin = families_extra.generic_programs(ctx)
    fprogs = [p for ps in by_bin.values() for p in ps]
    obs = observe(ctx, fprogs, "c15b")
    for b in list(by_bin):
        keep = []
        for p in by_bin[b]:
            if p["name"] in obs:
                for part in p["parts"]:
                    part["observed_generics"] = obs[p["name"]].get(part["id"], {})
                keep.append(p)
        by_bin[b] = keep
    fam = build_family(ctx, "generic", by_bin)

    def per_bin(b, ps, r):
        for p in ps:
            c01.check_prog(ctx, r, p, ctx.pick(4, 30))
            c02.check_prog(ctx, r, p, ctx.pick(3, 30))
    fam.each_bin(per_bin)
    ctx.cov["compiled_generic_programs"] = len(fam.progs)
    # (3) interfaces whose handlers take `CosmosMsg<Self::ExecC>`-typed arguments: the custom types are associated types like any other
    gen = ctx.family("general")
    sp = [p for p in gen.progs if any(part.get("special_params") for part in p["parts"])]
    observe(ctx, sp, "c15c")

    def per_bin_sp(b, ps, r):
        for p in ps:
            if any(part.get("special_params") for part in p["parts"]):
                c01.check_prog(ctx, r, p, ctx.pick(2, 10))
                c02.check_prog(ctx, r, p, ctx.pick(2, 10))
    gen.each_bin(per_bin_sp)
    ctx.cov["programs_with_custom_typed_arguments"] = len(sp)
