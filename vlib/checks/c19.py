"""C19 — generated code is hygienic about crate name and user type-parameter names."""
from .. import families_extra
from . import c01, c02, c07, c08


def monitors(ctx, r, p, n):
    c01.check_prog(ctx, r, p, n)
    if p.get("reply_table"):
        c07.check_prog(ctx, r, p, max(3, n))
        c08.check_prog(ctx, r, p, max(3, n))
    # reply methods are not message handlers of C02's five kinds: drop them for that monitor
    q = dict(p)
    q["parts"] = [dict(pt, handlers=[h for h in pt["handlers"] if h["kind"] != "reply"]) for pt in p["parts"]]
    c02.check_prog(ctx, r, q, n)


def run(ctx):
    ctx.rule = ("(a) a slice of every program family (custom msg/query types, interfaces in all three custom modes, reply tables with partial coverage, generic contracts, "
                "overridden entry points, forwarded attributes) compiled in a crate whose only import of the framework is `svx = { package = \"sylvia\" }`; (b) one generic "
                "contract + interface with an associated type per candidate name A..Z, Msg, Query, Param, Data, Exec, Custom, Item (with reply handlers and multitest helpers); "
                "every program must compile (a refusal is a violation with the rustc diagnostic as witness) and pass the C01/C02/C07/C08 monitors; "
                "non-trivial+distinct = the monitors' own cases on these programs")
    ctx.assumptions = ["names sylvia documents as reserved on interfaces (Error, ExecC, QueryC) are not candidates",
                       "helper parameters with non-conventional names (ContractT, CustomMsgT, MtApp, BankT, ...) are not swept"]
    n = ctx.pick(3, 20)
    for famname in ("alias", "names"):
        fam = ctx.family(famname)

        def per_bin(b, progs, r):
            for p in progs:
                monitors(ctx, r, p, n)
        fam.each_bin(per_bin)
        ctx.cov[famname + "_programs_compiled"] = len(fam.progs)
        ctx.cov[famname + "_programs_refused"] = len(fam.refused)
        if famname == "names":
            ctx.cov["names_swept"] = families_extra.CANDIDATE_NAMES
        else:
            ctx.sample({"alias_crate_dependency": "svx = { package = \"sylvia\", path = .. }", "programs": [p["name"] for p in fam.progs][:8]})
