"""C19 — generated code is hygienic about crate name and user type-parameter names."""
from .. import families_extra
from . import c01, c02, c07, c08


def monitors(ctx, r, p, n):
    c01.check_prog(ctx, r, p, n)
    if p.get("reply_table"):
        c07.check_prog(ctx, r, p, max(3, n))
        c08.check_prog(ctx, r, p, max(3, n))
    # reply methods are not message handlers of C02's five kinds: drop them for that monitor
    q = dict(p)
    q["parts"] = [dict(pt, handlers=[h for h in pt["handlers"] if h["kind"] != "reply"]) for pt in p["parts"]]
    c02.check_prog(ctx, r, q, n)


def spelling_twins(ctx, r, b, twins):
    """Two programs that differ only in how the contract's type parameter is spelled publish the same schemas: the
    spelling of a parameter is not observable (only the program's own module name differs in type names)."""
    import json
    docs = []
    for p in twins:
        d = {}
        for op in ["schemas:w", "schemas:c"] + [f"schema_for:w:{k}" for k in ("exec", "query", "sudo")] + [f"schema_for:c:{k}" for k in ("exec", "query", "sudo")]:
            o = r.call({"prog": p["name"], "op": op})
            d[op] = json.dumps(o.get("res"), sort_keys=True).replace(p["name"], "<prog>")
        docs.append(d)
    for op in docs[0]:
        ctx.ev()
        if docs[0][op] != docs[1][op]:
            ctx.violate("output-depends-on-parameter-spelling", f"{twins[0]['name']} / {twins[1]['name']}: `{op}` differs between the two spellings of the type parameter",
                        {"op": op, "first": docs[0][op][:1500], "second": docs[1][op][:1500]})
        else:
            ctx.nontrivial(["spelling-twins", op])
            ctx.count("spelling_twin_documents_equal")


def run(ctx):
    ctx.rule = ("(a) a slice of every program family (custom msg/query types, interfaces in all three custom modes, reply tables with partial coverage, generic contracts, "
                "overridden entry points, forwarded attributes) compiled in a crate whose only import of the framework is `svx = { package = \"sylvia\" }`; (b) one generic "
                "contract + interface with an associated type per candidate name A..Z, Msg, Query, Param, Data, Exec, Custom, Item (with reply handlers and multitest helpers); "
                "(c) a crate that imports nothing but the framework (all paths written out; plain and generic contract, interface, reply handler, with and without "
                "entry points) checked under several feature sets of the framework (mt without cosmwasm_1_2, no features, ..) as `sylvia` and as `svx`; "
                "every program must compile (a refusal is a violation with the rustc diagnostic as witness) and pass the C01/C02/C07/C08 monitors; "
                "non-trivial+distinct = the monitors' own cases on these programs")
    ctx.assumptions = ["names sylvia documents as reserved on interfaces (Error, ExecC, QueryC) are not candidates",
                       "helper parameters with non-conventional names (ContractT, CustomMsgT, MtApp, BankT, ...) are not swept"]
    n = ctx.pick(3, 20)
    for famname in ("alias", "names"):
        fam = ctx.family(famname)

        def per_bin(b, progs, r):
            for p in progs:
                monitors(ctx, r, p, n)
                if p.get("generics"):
                    # every instance the generated code built with `new()` while the monitors ran is the caller's instantiation
                    ref = r.call({"prog": p["name"], "op": "typename"})["res"]["ok"]
                    seen = sorted(r.new_types.get(p["name"], ()))
                    ctx.ev()
                    if seen and seen != [ref]:
                        ctx.violate("contract-instantiation", f"{p['name']}: generated code ran handlers on {[x for x in seen if x != ref][:2]} instead of the caller's {ref}",
                                    {"prog": p["name"], "expected": ref, "constructed": seen})
                    elif seen:
                        ctx.count("programs_with_instantiation_checked")
            twins = [p for p in progs if p["name"] in ("nm_param_900", "nm_paramt_900")]
            if len(twins) == 2:
                spelling_twins(ctx, r, b, twins)
        fam.each_bin(per_bin)
        ctx.cov[famname + "_programs_compiled"] = len(fam.progs)
        ctx.cov[famname + "_programs_refused"] = len(fam.refused)
        if famname == "names":
            ctx.cov["names_swept"] = families_extra.CANDIDATE_NAMES
        else:
            ctx.sample({"alias_crate_dependency": "svx = { package = \"sylvia\", path = .. }", "programs": [p["name"] for p in fam.progs][:8]})
    feature_sets(ctx)


# A crate that imports nothing but the framework crate itself, every path written out: whatever the generated code names,
# it has to name through `{sv}::..` -- in every feature set (some branches of the multitest helpers exist only without
# `cosmwasm_1_2`, and cargo unifies the features of everything built in one invocation, so the corpus never compiles them).
BARE_TEMPLATE = """pub mod iface {{
    #[{sv}::interface]
    pub trait Counter {{
        type Error: From<{sv}::cw_std::StdError>;
        #[sv::msg(exec)]
        fn bump(&self, ctx: {sv}::ctx::ExecCtx, by: u32) -> Result<{sv}::cw_std::Response, Self::Error>;
        #[sv::msg(query)]
        fn count(&self, ctx: {sv}::ctx::QueryCtx) -> Result<u32, Self::Error>;
        #[sv::msg(sudo)]
        fn wipe(&self, ctx: {sv}::ctx::SudoCtx) -> Result<{sv}::cw_std::Response, Self::Error>;
    }}
}}
pub struct Contract{gdecl}{gfield};
impl{gdecl} iface::Counter for Contract{gdecl}{gwhere} {{
    type Error = {sv}::cw_std::StdError;
    fn bump(&self, _ctx: {sv}::ctx::ExecCtx, _by: u32) -> Result<{sv}::cw_std::Response, Self::Error> {{ Ok({sv}::cw_std::Response::new()) }}
    fn count(&self, _ctx: {sv}::ctx::QueryCtx) -> Result<u32, Self::Error> {{ Ok(1) }}
    fn wipe(&self, _ctx: {sv}::ctx::SudoCtx) -> Result<{sv}::cw_std::Response, Self::Error> {{ Ok({sv}::cw_std::Response::new()) }}
}}
{ep}#[{sv}::contract]
#[sv::messages(iface)]
#[sv::features(replies)]
impl{gdecl} Contract{gdecl}{gwhere} {{
    pub fn new() -> Self {{ Contract{gnew} }}
    #[sv::msg(instantiate)]
    fn instantiate(&self, _ctx: {sv}::ctx::InstantiateCtx, _seed: {garg}) -> {sv}::cw_std::StdResult<{sv}::cw_std::Response> {{ Ok({sv}::cw_std::Response::new()) }}
    #[sv::msg(exec)]
    fn poke(&self, _ctx: {sv}::ctx::ExecCtx, _v: Option<{garg}>) -> {sv}::cw_std::StdResult<{sv}::cw_std::Response> {{ Ok({sv}::cw_std::Response::new()) }}
    #[sv::msg(query)]
    fn peek(&self, _ctx: {sv}::ctx::QueryCtx) -> Result<u32, {sv}::cw_std::StdError> {{ Ok(1) }}
    #[sv::msg(sudo)]
    fn tick(&self, _ctx: {sv}::ctx::SudoCtx) -> {sv}::cw_std::StdResult<{sv}::cw_std::Response> {{ Ok({sv}::cw_std::Response::new()) }}
    #[sv::msg(migrate)]
    fn migrate(&self, _ctx: {sv}::ctx::MigrateCtx) -> {sv}::cw_std::StdResult<{sv}::cw_std::Response> {{ Ok({sv}::cw_std::Response::new()) }}
    #[sv::msg(reply, reply_on=success)]
    fn done(&self, _ctx: {sv}::ctx::ReplyCtx, #[sv::payload(raw)] _p: {sv}::cw_std::Binary) -> {sv}::cw_std::StdResult<{sv}::cw_std::Response> {{ Ok({sv}::cw_std::Response::new()) }}
}}
"""

FEATURE_SETS = [("mt",), (), ("mt", "cosmwasm_1_2"), ("mt", "stargate", "cosmwasm_2_0"), ("stargate", "iterator"), ("mt", "cosmwasm_1_4", "iterator")]


def bare_modules(sv):
    mods = {}
    plain = dict(sv=sv, gdecl="", gfield="", gwhere="", gnew="", garg="u32")
    generic = dict(sv=sv, gdecl="<Param>", gfield="(std::marker::PhantomData<Param>)", gnew="(std::marker::PhantomData)", garg="Param",
                   gwhere=f" where Param: {sv}::serde::Serialize + {sv}::serde::de::DeserializeOwned + Clone + std::fmt::Debug + PartialEq + {sv}::schemars::JsonSchema + 'static")
    mods["plain_ep"] = BARE_TEMPLATE.format(ep=f"#[{sv}::entry_points]\n", **plain)
    mods["plain"] = BARE_TEMPLATE.format(ep="", **plain)
    mods["generic"] = BARE_TEMPLATE.format(ep="", **generic)
    mods["generic_ep"] = BARE_TEMPLATE.format(ep=f"#[{sv}::entry_points(generics<u64>)]\n", **generic)
    return mods


def feature_sets(ctx):
    """(c) the bare crate under several feature sets of the framework, imported as `sylvia` and as `svx`."""
    from .. import rustc_engine
    sets = FEATURE_SETS[:ctx.pick(2, len(FEATURE_SETS))]
    for i, fs in enumerate(sets):
        for sv in (["svx"] if (ctx.quick and i) else ["sylvia", "svx"]):
            mods = bare_modules(sv)
            label = "c19f_" + sv + "_" + ("_".join(fs) or "none")
            res = rustc_engine.verdicts(ctx, label, mods, sv_name=sv, features=list(fs), with_svmon=False)
            for m, diags in res.items():
                ctx.ev()
                if diags:
                    ctx.violate(f"bare-crate-refused:{diags[0]['message'][:60]}", f"a crate importing only `{sv}` with features {list(fs)} does not compile ({m}): {diags[0]['message'][:160]}",
                                {"import": sv, "features": list(fs), "module": m, "source": mods[m], "diagnostics": diags[:3]})
                else:
                    ctx.nontrivial([sv, list(fs), m])
                    ctx.count("bare_crate_modules_compiled")
    ctx.cov["feature_sets"] = [list(fs) for fs in sets]
