"""C19 — generated code is hygienic about crate name and user type-parameter names."""
from .. import families_extra
from . import c01, c02, c07, c08


def monitors(ctx, r, p, n):
    c01.check_prog(ctx, r, p, n)
    if p.get("reply_table"):
        c07.check_prog(ctx, r, p, max(3, n))
        c08.check_prog(ctx, r, p, max(3, n))
    # reply methods are not message handlers of C02's five kinds: drop them for that monitor
    q = dict(p)
    q["parts"] = [dict(pt, handlers=[h for h in pt["handlers"] if h["kind"] != "reply"]) for pt in p["parts"]]
    c02.check_prog(ctx, r, q, n)


def spelling_twins(ctx, r, b, twins):
    """Two programs that differ only in how the contract's type parameter is spelled publish the same schemas: the
    spelling of a parameter is not observable (only the program's own module name differs in type names)."""
    import json
    docs = []
    for p in twins:
        d = {}
        for op in ["schemas:w", "schemas:c"] + [f"schema_for:w:{k}" for k in ("exec", "query", "sudo")] + [f"schema_for:c:{k}" for k in ("exec", "query", "sudo")]:
            o = r.call({"prog": p["name"], "op": op})
            d[op] = json.dumps(o.get("res"), sort_keys=True).replace(p["name"], "<prog>")
        docs.append(d)
    for op in docs[0]:
        ctx.ev()
        if docs[0][op] != docs[1][op]:
            ctx.violate("output-depends-on-parameter-spelling", f"{twins[0]['name']} / {twins[1]['name']}: `{op}` differs between the two spellings of the type parameter",
                        {"op": op, "first": docs[0][op][:1500], "second": docs[1][op][:1500]})
        else:
            ctx.nontrivial(["spelling-twins", op])
            ctx.count("spelling_twin_documents_equal")


def run(ctx):
    ctx.rule = ("(a) a slice of every program family (custom msg/query types, interfaces in all three custom modes, reply tables with partial coverage, generic contracts, "
                "overridden entry points, forwarded attributes) compiled in a crate whose only import of the framework is `svx = { package = \"sylvia\" }`; (b) one generic "
                "contract + interface with an associated type per candidate name A..Z, Msg, Query, Param, Data, Exec, Custom, Item (with reply handlers and multitest helpers); "
                "every program must compile (a refusal is a violation with the rustc diagnostic as witness) and pass the C01/C02/C07/C08 monitors; "
                "non-trivial+distinct = the monitors' own cases on these programs")
    ctx.assumptions = ["names sylvia documents as reserved on interfaces (Error, ExecC, QueryC) are not candidates",
                       "helper parameters with non-conventional names (ContractT, CustomMsgT, MtApp, BankT, ...) are not swept"]
    n = ctx.pick(3, 20)
    for famname in ("alias", "names"):
        fam = ctx.family(famname)

        def per_bin(b, progs, r):
            for p in progs:
                monitors(ctx, r, p, n)
            twins = [p for p in progs if p["name"] in ("nm_param_900", "nm_paramt_900")]
            if len(twins) == 2:
                spelling_twins(ctx, r, b, twins)
        fam.each_bin(per_bin)
        ctx.cov[famname + "_programs_compiled"] = len(fam.progs)
        ctx.cov[famname + "_programs_refused"] = len(fam.refused)
        if famname == "names":
            ctx.cov["names_swept"] = families_extra.CANDIDATE_NAMES
        else:
            ctx.sample({"alias_crate_dependency": "svx = { package = \"sylvia\", path = .. }", "programs": [p["name"] for p in fam.progs][:8]})
