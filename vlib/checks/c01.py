"""C01 — generated messages have the JSON shape named by the method signature."""
import json
import threading

from .. import types as T
from ..spec import KINDS_ENUM, handlers
from .common import Canon, body_text, canon_args, doc_text, draw_args, dumps, wire_names

LOCK = threading.Lock()


def name_mutants(rng, name):
    out = {name.upper(), name.capitalize(), T.variant_ident(name), name + "_", "_" + name, name[:-1],
           name.replace("_", ""), name.replace("_", "__"), name + "2", name.replace("2", "_2"),
           name.replace("_", "-"), " " + name, name + " "}
    w = name.split("_")
    if len(w) > 1:
        out.add("_".join(reversed(w)))
        out.add(w[0] + "".join(x.capitalize() for x in w[1:]))
    for i, ch in enumerate(name):
        if ch.isdigit():
            out.add(name[:i] + "_" + name[i:])
    out.add("".join(rng.choice("abcxyz_") for _ in range(rng.randrange(1, 9))))
    out.discard(name)
    out.discard("")
    return sorted(out)


def check_prog(ctx, r, prog, n_values):
    rng = ctx.rng("c01", prog["name"])
    canon = Canon(r, prog)
    pn = prog["name"]
    all_names = sorted({T.wire_name(h["name"]) for h in handlers(prog) if h["kind"] != "reply"} | {h["name"] for h in handlers(prog) if h["kind"] != "reply"})
    wit = {}  # (part, kind, name) -> a valid document
    for h in handlers(prog):
        if h["kind"] == "reply":
            continue  # reply methods have no message type (C07-C09)
        for it in range(n_values):
            texts = draw_args(rng, prog, h)
            ct = canon_args(canon, prog, h, texts)
            if ct is None:
                raise RuntimeError(f"drawn value does not decode: {h} {texts}")
            pred = doc_text(h, ct)
            ext = T.wire_name(h["name"]) != h["name"] and h["kind"] in KINDS_ENUM
            o = r.call({"prog": pn, "op": "build:" + h["hid"], "args": texts})
            ctx.ev()
            if "panic" in o or "ok" not in o.get("res", {}):
                ctx.violate("build-failed", f"{pn} {h['hid']}: building the message failed: {str(o)[:200]}",
                            {"prog": pn, "handler": h, "args": texts, "obs": o})
                continue
            b = o["res"]["ok"]
            key = (prog["name"], h["hid"])
            if ext:
                # outside the C01 name domain the wire name is not pinned: only the body shape, the single key
                # and the round trip are (self-consistency of the name is C03/C05)
                try:
                    k0 = list(json.loads(b["literal"]).keys())
                except ValueError:
                    k0 = []
                if len(k0) == 1:
                    pred = "{" + dumps(k0[0]) + ":" + body_text(h, ct) + "}"
                ctx.count("extended_name_handlers")
            if b["literal"] != pred:
                ctx.violate(f"shape:{h['kind']}", f"{pn} {h['hid']}: serialises to {b['literal'][:160]} but the signature predicts {pred[:160]}",
                            {"prog": pn, "handler": h, "args": texts, "predicted": pred, "observed": b["literal"]})
            if b["ctor"] is not None and not b["eq"]:
                ctx.violate(f"ctor:{h['kind']}", f"{pn} {h['hid']}: constructor builds a different message than the literal variant",
                            {"prog": pn, "handler": h, "args": texts, "literal": b["literal"], "ctor": b["ctor"]})
            # parse the predicted text back: must give an equal message
            po = r.call({"prog": pn, "op": f"parse:{h['part']}:{h['kind']}", "doc": pred})
            ctx.ev()
            pr = po.get("res", {})
            if "ok" not in pr:
                ctx.violate(f"parse:{h['kind']}", f"{pn} {h['hid']}: predicted document is not accepted: {str(pr)[:200]}",
                            {"prog": pn, "handler": h, "doc": pred, "obs": po})
            else:
                if pr["ok"]["debug"] != b["debug"]:
                    ctx.violate(f"roundtrip:{h['kind']}", f"{pn} {h['hid']}: parsing the encoding gives a different message",
                                {"prog": pn, "handler": h, "doc": pred, "built": b["debug"], "parsed": pr["ok"]["debug"]})
                if pr["ok"]["json"] != pred:
                    ctx.violate(f"reencode:{h['kind']}", f"{pn} {h['hid']}: re-encoding the parsed message differs",
                                {"prog": pn, "handler": h, "doc": pred, "reencoded": pr["ok"]["json"]})
            if h["kind"] in KINDS_ENUM:
                wit[(h["part"], h["kind"], T.wire_name(h["name"]))] = (pred, body_text(h, ct))
            if h["args"]:
                ctx.nontrivial([pn, h["hid"], pred])
            if it == 0:
                ctx.sample({"program": pn, "handler": h["hid"], "signature": [[a["name"], prog["types"][a["ti"]].rust] for a in h["args"]],
                            "predicted_doc": pred, "observed": b["literal"]}, limit=5)

    # which names does each enum message type accept?
    cmds, meta = [], []
    for part in prog["parts"]:
        for kind in KINDS_ENUM:
            own = set(wire_names(prog, part["id"], kind))
            cands = set(all_names)
            for n in all_names[:6]:
                cands.update(name_mutants(rng, n))
            cands.update(["__phantom", "_phantom", "_Phantom", "phantom"])
            for n in sorted(cands):
                if n in own:
                    doc = wit[(part["id"], kind, n)][0]
                else:
                    # a body that some message of this program accepts, so only the name decides
                    bodies = [v[1] for (p2, k2, n2), v in wit.items() if n2 == n] or ["{}", "null", "[]", "[null]"]
                    doc = "{" + dumps(n) + ":" + rng.choice(bodies) + "}"
                cmds.append({"prog": pn, "op": f"parse:{part['id']}:{kind}", "doc": doc})
                meta.append((part["id"], kind, n, n in own, doc))
                if n in ("__phantom", "_phantom", "_Phantom", "phantom") and n not in own:
                    for bdy in ("null", "[]", "{}", "[null]", "\"x\""):
                        doc2 = "{" + dumps(n) + ":" + bdy + "}"
                        cmds.append({"prog": pn, "op": f"parse:{part['id']}:{kind}", "doc": doc2})
                        meta.append((part["id"], kind, n, False, doc2))
            # exactly one key
            if own:
                n0 = sorted(own)[0]
                d0, b0 = wit[(part["id"], kind, n0)]
                for doc in ["{}", "{" + dumps(n0) + ":" + b0 + "," + dumps("zz_other") + ":{}}", dumps(n0), "[" + d0 + "]", "null"]:
                    cmds.append({"prog": pn, "op": f"parse:{part['id']}:{kind}", "doc": doc})
                    meta.append((part["id"], kind, "<shape>", False, doc))
    outs = r.batch(cmds)
    for (pid, kind, n, expect, doc), o in zip(meta, outs):
        ctx.ev()
        ctx.count("name_probes")
        acc = "ok" in o.get("res", {})
        if "panic" in o:
            ctx.violate("parse-panic", f"{pn}: decoding panicked on {doc[:120]}", {"prog": pn, "doc": doc, "obs": o})
        elif acc != expect:
            ctx.violate(f"names:{kind}:{'rejects-own' if expect else 'accepts-foreign'}",
                        f"{pn}: {pid} {kind} message {'rejects its own name' if expect else 'accepts a name it does not own'} `{n}`",
                        {"prog": pn, "part": pid, "kind": kind, "name": n, "doc": doc, "obs": o})
        ctx.nontrivial([pn, pid, kind, n])


def run(ctx):
    ctx.rule = ("programs drawn by the seeded generator; per handler N argument tuples drawn from the type universe; "
                "non-trivial+distinct = distinct (program, handler, predicted document) with >=1 argument, plus distinct "
                "(program, part, kind, candidate name) acceptance probes")
    ctx.assumptions = ["argument types limited to the generator's universe", "method names in the C01 domain (lower-case words, optional trailing digits)",
                       "each argument's own encoding is taken from from_json/to_json_string of the bare argument type"]
    fam = ctx.family("general")
    n_values = ctx.pick(12, 120)

    def per_bin(b, progs, r):
        for p in progs:
            check_prog(ctx, r, p, n_values)
    fam.each_bin(per_bin)
    # generic message types carry a helper variant that must never be a message name
    gen = ctx.family("generic")
    gen.each_bin(lambda b, progs, r: [check_prog(ctx, r, p, max(2, n_values // 3)) for p in progs])
    ctx.cov["generic_programs"] = len(gen.progs)
    # a slice of the corpus built in the release profile (no debug assertions / overflow checks): what gets deployed
    rel = ctx.family("release")
    rel.each_bin(lambda b, progs, r: [check_prog(ctx, r, p, max(2, n_values // 3)) for p in progs])
    ctx.cov["release_profile_programs"] = len(rel.progs)
    sh = ctx.family("shadow")
    sh.each_bin(lambda b, progs, r: [check_prog(ctx, r, p, max(2, n_values // 3)) for p in progs])
    ctx.cov["shadow_programs"] = len(sh.progs)
    ctx.cov["programs"] = len(fam.progs)
    ctx.cov["handlers"] = sum(1 for p in fam.progs for _ in handlers(p))
