"""Shared pieces of the oracles: value drawing, canonical encodings, predicted documents,
random worlds / env / info, plans."""
import json

from .. import types as T
from ..spec import KINDS_ENUM, handlers, part_by_id

ENUM_KINDS = KINDS_ENUM


def dumps(v):
    return json.dumps(v, ensure_ascii=False, separators=(",", ":"))


class Canon:
    """Cache of canonical (= the argument type's own) JSON encodings obtained from the runner."""

    def __init__(self, r, prog):
        self.r = r
        self.prog = prog
        self.cache = {}

    def many(self, ti, texts):
        need = [t for t in dict.fromkeys(texts) if (ti, t) not in self.cache]
        if need:
            o = self.r.call({"prog": self.prog["name"], "op": f"canon:{ti}", "texts": need})
            for t, res in zip(need, o["res"]["ok"]):
                self.cache[(ti, t)] = res
        return [self.cache[(ti, t)] for t in texts]

    def one(self, ti, text):
        return self.many(ti, [text])[0]


def draw_args(rng, prog, h, distinct_same_typed=True):
    """JSON texts for the handler's arguments.  Same-typed arguments get different values
    whenever the type has more than one value."""
    texts = []
    seen = {}
    for a in h["args"]:
        ty = prog["types"][a["ti"]]
        for _ in range(8):
            t = dumps(ty.gen(rng))
            if not distinct_same_typed or t not in seen.get(a["ti"], set()):
                break
        seen.setdefault(a["ti"], set()).add(t)
        texts.append(t)
    return texts


def canon_args(canon, prog, h, texts):
    """Canonical texts, or None when some text does not decode (should not happen for drawn values)."""
    out = []
    for a, t in zip(h["args"], texts):
        c = canon.one(a["ti"], t)
        if "ok" not in c:
            return None
        out.append(c["ok"])
    return out


def body_text(h, ctexts):
    return "{" + ",".join(dumps(T.arg_key(a)) + ":" + c for a, c in zip(h["args"], ctexts)) + "}"


def doc_text(h, ctexts):
    """The document the statement of C01 predicts, assembled by string concatenation."""
    b = body_text(h, ctexts)
    if h["kind"] in ("instantiate", "migrate"):
        return b
    return "{" + dumps(T.wire_name(h["name"])) + ":" + b + "}"


def event_args(h, ctexts):
    return [[T.arg_key(a), c] for a, c in zip(h["args"], ctexts)]


def wire_names(prog, part_id, kind):
    return sorted(T.wire_name(h["name"]) for h in handlers(prog, kind=kind, part=part_id))


API_PREFIXES = ["cosmwasm", "juno", "osmo", "wasm", "neutron", "stars"]


def draw_world(rng):
    return {"probe": "nonce" + str(rng.randrange(10**9)), "api_prefix": rng.choice(API_PREFIXES),
            "balance": str(rng.randrange(1, 10**12))}


def api_probe_of(prefix):
    """bech32 of 20 bytes of 0x07 under the prefix — computed independently of cosmwasm."""
    return bech32_encode(prefix, bytes([7] * 20))


def draw_env(rng):
    return {
        "block": {"height": rng.randrange(1, 10**7), "time": str(rng.randrange(10**18, 2 * 10**18)),
                  "chain_id": rng.choice(["testing", "juno-1", "x"])},
        "transaction": rng.choice([None, {"index": rng.randrange(0, 1000)}]),
        "contract": {"address": "contract" + str(rng.randrange(1000))},
    }


def draw_info(rng):
    n = rng.choice([0, 0, 1, 2, 3])
    # (a coin of amount zero is a coin: the handler sees the funds as sent)
    funds = [{"denom": d, "amount": str(rng.choice([0, rng.randrange(1, 10**9), rng.randrange(1, 10**9)]))} for d in rng.sample(["uatom", "ujuno", "uosmo", "x"], n)]
    sender = rng.choice(["alice", "bob", "carol", "dave"]) + str(rng.randrange(100))
    if rng.random() < 0.25:
        # a well-formed bech32 address of one of the apis in use, in its (equally valid) all-upper-case spelling, or with
        # surrounding whitespace: the handler sees the sender as given, not a normalised form
        addr = bech32_encode(rng.choice(API_PREFIXES), bytes(rng.randrange(256) for _ in range(20)))
        sender = rng.choice([addr.upper(), addr.upper(), " " + addr, addr + " "])
    return {"sender": sender, "funds": funds}


def draw_response(rng, custom_msg=False, allow_custom=True, max_msgs=3):
    """A JSON Response<M> (as python value) with sub-messages, attributes, events, data."""
    import base64
    msgs = []
    for _ in range(rng.choice([0, 0, 1, 2, max_msgs])):
        msgs.append(draw_submsg(rng, custom_msg=custom_msg, allow_custom=allow_custom))
    attrs = [{"key": rng.choice(["k", "action", "_x", "a b"]) + str(i), "value": rng.choice(T.HOSTILE_STRINGS)}
             for i in range(rng.choice([0, 1, 2, 3]))]
    if attrs and rng.random() < 0.3:
        # the same attribute several times in a row (one per recipient, say): a response is a list, not a set
        j = rng.randrange(len(attrs))
        attrs[j:j + 1] = [dict(attrs[j]) for _ in range(rng.choice([2, 3]))]
    events = [{"type": rng.choice(["ev", "transfer", "x", "wasm-transfer", "wasm-", "wasm", "WASM-x"]) + rng.choice([str(i), str(i), ""]),
               "attributes": [{"key": "ek" + str(j), "value": str(rng.randrange(100))} for j in range(rng.choice([0, 1, 2]))]}
              for i in range(rng.choice([0, 1, 2]))]
    if events and rng.random() < 0.2:
        events.append(json.loads(json.dumps(events[-1])))
    data = None if rng.random() < 0.4 else base64.b64encode(bytes(rng.randrange(256) for _ in range(rng.choice([0, 1, 5, 20])))).decode()
    return {"messages": msgs, "attributes": attrs, "events": events, "data": data}


def draw_cosmos_msg(rng, custom_msg=False, allow_custom=True, kinds=None):
    import base64
    kinds = kinds or ["bank", "wasm_exec", "wasm_inst", "staking", "distribution", "custom"]
    if not allow_custom:
        kinds = [k for k in kinds if k != "custom"]
    k = rng.choice(kinds)
    coin = lambda: {"denom": rng.choice(["uatom", "x"]), "amount": str(rng.randrange(10**9))}
    b64 = lambda: base64.b64encode(bytes(rng.randrange(256) for _ in range(rng.choice([0, 2, 9])))).decode()
    if k == "bank":
        return {"bank": {"send": {"to_address": "addr" + str(rng.randrange(99)), "amount": [coin() for _ in range(rng.choice([0, 1, 2]))]}}}
    if k == "wasm_exec":
        return {"wasm": {"execute": {"contract_addr": "c" + str(rng.randrange(99)), "msg": b64(), "funds": [coin() for _ in range(rng.choice([0, 1]))]}}}
    if k == "wasm_inst":
        return {"wasm": {"instantiate": {"admin": rng.choice([None, "adm"]), "code_id": rng.randrange(1000), "msg": b64(), "funds": [], "label": rng.choice(["", "l"])}}}
    if k == "staking":
        return {"staking": {"delegate": {"validator": "val" + str(rng.randrange(9)), "amount": coin()}}}
    if k == "distribution":
        return {"distribution": {"set_withdraw_address": {"address": "w" + str(rng.randrange(9))}}}
    if k == "ibc":
        return {"ibc": {"close_channel": {"channel_id": "channel-" + str(rng.randrange(9))}}}
    if k == "gov":
        return {"gov": {"vote": {"proposal_id": rng.randrange(100), "option": rng.choice(["yes", "no", "abstain", "no_with_veto"])}}}
    if k == "stargate":
        return {"stargate": {"type_url": "/a.b.C" + str(rng.randrange(9)), "value": b64()}}
    if k == "any":
        return {"any": {"type_url": "/x.y.Z" + str(rng.randrange(9)), "value": b64()}}
    if k == "custom":
        return {"custom": ({"ping": {"n": rng.randrange(1000)}} if custom_msg else {})}
    raise ValueError(k)


def draw_submsg(rng, custom_msg=False, allow_custom=True, kinds=None):
    import base64
    return {
        "id": rng.choice([0, 1, 7, 2**64 - 1, rng.randrange(2**32)]),
        "payload": base64.b64encode(bytes(rng.randrange(256) for _ in range(rng.choice([0, 0, 3, 12])))).decode(),
        "msg": draw_cosmos_msg(rng, custom_msg=custom_msg, allow_custom=allow_custom, kinds=kinds),
        "gas_limit": rng.choice([None, None, 0, rng.randrange(10**9)]),
        "reply_on": rng.choice(["always", "error", "success", "never"]),
    }


# ---------------------------------------------------------------- bech32 (independent)
_CH = "qpzry9x8gf2tvdw0s3jn54khce6mua7l"


def _polymod(values):
    gen = [0x3b6a57b2, 0x26508e6d, 0x1ea119fa, 0x3d4233dd, 0x2a1462b3]
    chk = 1
    for v in values:
        b = chk >> 25
        chk = (chk & 0x1ffffff) << 5 ^ v
        for i in range(5):
            chk ^= gen[i] if ((b >> i) & 1) else 0
    return chk


def _hrp_expand(hrp):
    return [ord(x) >> 5 for x in hrp] + [0] + [ord(x) & 31 for x in hrp]


def _convertbits(data, frombits, tobits):
    acc = 0
    bits = 0
    ret = []
    maxv = (1 << tobits) - 1
    for value in data:
        acc = (acc << frombits) | value
        bits += frombits
        while bits >= tobits:
            bits -= tobits
            ret.append((acc >> bits) & maxv)
    if bits:
        ret.append((acc << (tobits - bits)) & maxv)
    return ret


def bech32_encode(hrp, data):
    d = _convertbits(data, 8, 5)
    values = _hrp_expand(hrp) + d
    polymod = _polymod(values + [0, 0, 0, 0, 0, 0]) ^ 1
    chk = [(polymod >> 5 * (5 - i)) & 31 for i in range(6)]
    return hrp + "1" + "".join(_CH[x] for x in d + chk)
