"""C16 — query response metadata names each query's real response type."""
import json

from .. import types as T
from ..spec import KINDS_ENUM, handlers
from .common import draw_args


def strip_root(root):
    r = dict(root)
    for k in ("$schema", "title", "definitions"):
        r.pop(k, None)
    return r


def check_prog(ctx, r, prog):
    pn = prog["name"]
    rng = ctx.rng("c16", pn)
    ty_schema = {}

    def schema_of(ti):
        if ti not in ty_schema:
            ty_schema[ti] = r.call({"prog": pn, "op": f"schema_ty:{ti}"})["res"]["ok"]["root"]
        return ty_schema[ti]

    union = {}
    for part in prog["parts"]:
        o = r.call({"prog": pn, "op": f"schemas:{part['id']}"})
        ctx.ev()
        if "panic" in o:
            ctx.violate("schemas-panic", f"{pn}: response_schemas_impl of part {part['id']} panicked: {o['panic'][:100]}", {"prog": pn, "obs": o})
            continue
        table = o["res"]["ok"]
        # generic query types carry a `__phantom` entry for their helper variant; it is not a sendable name
        # (serde(skip); C01 probes that it is refused), and the statement only rules out other *sendable* names
        if "__phantom" in table:
            table = {k: v for k, v in table.items() if k != "__phantom"}
            ctx.count("phantom_entries_ignored")
        qs = list(handlers(prog, kind="query", part=part["id"]))
        exp_names = sorted(T.wire_name(h["name"]) for h in qs)
        detail = {"prog": pn, "part": part["id"], "table_keys": sorted(table), "queries": exp_names}
        if sorted(table) != exp_names:
            ctx.violate("part-keys", f"{pn}: part {part['id']} response table has keys {sorted(table)} but its queries are {exp_names}", detail)
        for h in qs:
            ctx.ev()
            wn = T.wire_name(h["name"])
            # the name a client really sends: the key this query's variant serialises under
            texts = draw_args(rng, prog, h)
            bo = r.call({"prog": pn, "op": "build:" + h["hid"], "args": texts})
            try:
                sent = next(iter(json.loads(bo["res"]["ok"]["literal"]).keys()))
            except Exception:
                sent = None
            if sent is not None and sent not in table:
                ctx.violate("key-not-sent-name", f"{pn}: query {h['hid']} is sent as `{sent}` but the table of part {part['id']} has no such key (keys {sorted(table)})",
                            dict(detail, handler=h["hid"], sent_as=sent))
            elif sent is not None:
                ctx.count("table_keys_equal_to_serialised_name")
            if wn not in table:
                continue
            decl = h.get("resp_decl_ti", h["resp_ti"])
            exp = schema_of(decl)
            if table[wn] != exp:
                ctx.violate("part-schema" + (":resp-literal" if h.get("resp_literal") else ""), f"{pn}: {h['hid']} is declared to return {prog['types'][decl].rust} but the table carries schema `{table[wn].get('title')}`",
                            dict(detail, handler=h["hid"], expected=exp, observed=table[wn]))
            union[wn] = exp
            ctx.count("queries_with_explicit_resp" if h.get("resp_explicit") else "queries_with_inferred_resp")
            if h.get("resp_literal"):
                ctx.count("queries_with_resp_overriding_literal_result")
            sibs = [h2 for h2 in qs if h2 is not h and h2.get("resp_decl_ti", h2["resp_ti"]) != decl]
            if sibs:
                ctx.nontrivial([pn, h["hid"], prog["types"][decl].rust])
            if len(ctx.samples) < 4 and sibs:
                ctx.sample({"program": pn, "query": h["hid"], "declared_response": prog["types"][decl].rust,
                            "table_schema_title": table[wn].get("title")})
    o = r.call({"prog": pn, "op": "schemas:w"})
    ctx.ev()
    if "panic" in o:
        ctx.violate("schemas-panic", f"{pn}: contract-level response_schemas_impl panicked: {o['panic'][:100]}", {"prog": pn, "obs": o})
    else:
        wt = {k: v for k, v in o["res"]["ok"].items() if k != "__phantom"}
        if sorted(wt) != sorted(union):
            ctx.violate("contract-keys", f"{pn}: contract-level table keys {sorted(wt)} != union of parts {sorted(union)}",
                        {"prog": pn, "table_keys": sorted(wt), "union": sorted(union)})
        for k, v in union.items():
            if k in wt and wt[k] != v:
                ctx.violate("contract-schema", f"{pn}: contract-level table maps `{k}` to schema `{wt[k].get('title')}` instead of `{v.get('title')}`",
                            {"prog": pn, "query": k, "expected": v, "observed": wt[k]})
        if len(prog["parts"]) > 1 and len(union) >= 2:
            ctx.nontrivial([pn, "union", sorted(union)])
    # a generic contract instantiated with other types, in the same process, publishes the table of *those* types
    if prog.get("generics") and prog["error"] != "ErrT":
        o2 = r.call({"prog": pn, "op": "schemas:w:alt"})
        ctx.ev()
        if "panic" in o2 or "ok" not in o2.get("res", {}):
            ctx.violate("schemas-panic", f"{pn}: response table of a second instantiation failed: {str(o2)[:120]}", {"prog": pn, "obs": o2})
        else:
            t2 = o2["res"]["ok"]
            gn = [g["name"] for g in prog["generics"]]
            for h in handlers(prog, kind="query", part="c"):
                decl = h.get("resp_decl_ti", h["resp_ti"])
                if not any(n in T.params_in(prog["types"][decl]) for n in gn):
                    continue
                wn = T.wire_name(h["name"])
                want = r.call({"prog": pn, "op": f"schema_ty_alt:{decl}"})["res"]["ok"]["root"]
                ctx.ev()
                if t2.get(wn) != want:
                    ctx.violate("second-instantiation-schema", f"{pn}: ContractQueryMsg instantiated with other types maps `{wn}` to schema `{(t2.get(wn) or {}).get('title')}` "
                                f"instead of `{want.get('title')}`", {"prog": pn, "query": h["hid"], "expected": want, "observed": t2.get(wn)})
                else:
                    ctx.nontrivial([pn, "alt", h["hid"]])
                    ctx.count("second_instantiation_entries")
    # contract-level JSON schema = any-of of the parts' schemas
    for kind in KINDS_ENUM:
        ws = r.call({"prog": pn, "op": f"schema_for:w:{kind}"})
        ctx.ev()
        if "panic" in ws:
            ctx.violate("schema-panic", f"{pn}: schema_for Contract{kind}Msg panicked", {"prog": pn, "obs": ws})
            continue
        root = ws["res"]["ok"]["root"]
        refs = [x.get("$ref") for x in (root.get("anyOf") or [])]
        defs = root.get("definitions", {})
        # one any-of entry per part, each resolving to a definition equal to that part's own schema; definitions are matched
        # by content (two parts may carry same-named message types from different modules: schemars then numbers the names)
        unused = list(refs)
        for part in prog["parts"]:
            po = r.call({"prog": pn, "op": f"schema_for:{part['id']}:{kind}"})["res"]["ok"]
            want = strip_root(po["root"])
            hit = next((rf for rf in unused if rf and defs.get(rf.split("/")[-1]) == want), None)
            if hit is None:
                named = defs.get(po["name"])
                if named is None:
                    ctx.violate("anyof-missing-def", f"{pn}: Contract {kind} schema has no any-of entry for part {part['id']} ({po['name']})",
                                {"prog": pn, "kind": kind, "refs": refs, "part": part["id"]})
                else:
                    ctx.violate("anyof-def-differs", f"{pn}: Contract {kind} schema's entry for part {part['id']} differs from the part's own schema",
                                {"prog": pn, "kind": kind, "part": part["id"], "in_contract": named, "own": want})
                continue
            unused.remove(hit)
            for dn, dv in (po["root"].get("definitions") or {}).items():
                if defs.get(dn) != dv:
                    ctx.violate("anyof-subdef", f"{pn}: definition {dn} used by part {part['id']} missing/different in the contract {kind} schema",
                                {"prog": pn, "kind": kind, "part": part["id"], "definition": dn})
        if unused or len(refs) != len(prog["parts"]):
            ctx.violate("anyof-entries", f"{pn}: Contract {kind} schema any-of is {refs}: not exactly one entry per part ({len(prog['parts'])} parts, unmatched {unused})",
                        {"prog": pn, "kind": kind, "refs": refs, "unmatched": unused})
        if len(prog["parts"]) > 1:
            ctx.nontrivial([pn, "anyof", kind])


def run(ctx):
    ctx.rule = ("for every part and the contract: QueryResponses::response_schemas_impl() keys vs the query handlers of the spec, each schema vs "
                "schema_for!(declared response type); contract table vs union of parts; schema_for!(Contract*Msg).anyOf vs the parts' own schemas; "
                "non-trivial+distinct = distinct (program, query) whose part has a sibling query with a different response type, plus multi-part unions and any-ofs")
    ctx.assumptions = ["response types limited to path types of the universe (a tuple return type makes the macro panic: DESIGN limits)",
                       "explicit resp= is generated with an aliased result type (svmon::QResult) the macro cannot look into"]
    fam = ctx.family("general")

    def per_bin(b, progs, r):
        for p in progs:
            check_prog(ctx, r, p)
    fam.each_bin(per_bin)
    gen = ctx.family("generic")
    gen.each_bin(per_bin)
    ctx.cov["generic_programs"] = len(gen.progs)
    # the tables as a schema generator built in the release profile (no debug assertions) computes them
    rel = ctx.family("release")
    rel.each_bin(per_bin)
    ctx.cov["release_profile_programs"] = len(rel.progs)
    # response types that are user types named like framework items (Empty, Response, Binary, ...)
    sh = ctx.family("shadow")
    sh.each_bin(per_bin)
    ctx.cov["shadow_programs"] = len(sh.progs)
    from ..families_extra import SHADOW_NAMES
    ctx.cov["shadow_names"] = SHADOW_NAMES
    ctx.cov["programs"] = len(fam.progs)
