"""C10 — remote helpers build messages the target contract accepts and routes identically."""
import base64
import json

from ..spec import handlers, part_by_id
from .common import (Canon, canon_args, doc_text, draw_args, draw_env, draw_info, draw_world, dumps, event_args)
from .c20 import ADDRS


def draw_funds(rng):
    n = rng.choice([0, 1, 2])
    return [{"denom": d, "amount": str(rng.randrange(1, 10**12))} for d in rng.sample(["uatom", "ujuno", "x"], n)]


def b64d(s):
    return base64.b64decode(s).decode("utf-8", "replace")


def check_prog(ctx, r, prog, n):
    rng = ctx.rng("c10", prog["name"])
    canon = Canon(r, prog)
    pn = prog["name"]
    for h in handlers(prog):
        if not h["safe"] or h["kind"] not in ("exec", "query") or h.get("resp_literal"):
            continue  # resp_literal: the declared response type differs from what the handler returns (C16 only)
        part = part_by_id(prog, h["part"])
        targets = ["c"] if part["id"] == "c" else ["c", "dyn"]
        for it in range(n):
            texts = draw_args(rng, prog, h)
            ct = canon_args(canon, prog, h, texts)
            addr = rng.choice(ADDRS[:10]) if rng.random() < 0.3 else "contract" + str(rng.randrange(10**6))
            tname = targets[it % len(targets)]
            own = ["owned", "borrowed"][(it // 2) % 2]
            if h["kind"] == "exec":
                funds = None if it % 3 == 0 else draw_funds(rng)
                o = r.call({"prog": pn, "op": f"exec_helper:{h['hid']}:{tname}:{own}", "args": texts, "addr": addr, "funds": funds})
                ctx.ev()
                d = {"prog": pn, "handler": h["hid"], "handle": tname, "ownership": own, "addr": addr, "funds": funds, "args": texts, "obs": o}
                if "ok" not in o.get("res", {}):
                    ctx.violate("exec-helper-failed", f"{pn} {h['hid']}: executor helper failed: {str(o)[:160]}", d)
                    continue
                m = o["res"]["ok"]
                ex = m.get("execute")
                if not ex or set(m) != {"execute"}:
                    ctx.violate("exec-not-execute", f"{pn} {h['hid']}: executor helper built {list(m)} instead of a wasm execute message", d)
                    continue
                if ex["contract_addr"] != addr:
                    ctx.violate("exec-addr", f"{pn} {h['hid']}: message addressed to {ex['contract_addr']!r} instead of the handle's {addr!r}", d)
                if ex["funds"] != (funds or []):
                    ctx.violate("exec-funds", f"{pn} {h['hid']}: funds {ex['funds']} instead of {funds or []}", d)
                body = b64d(ex["msg"])
                world, env, info = draw_world(rng), draw_env(rng), draw_info(rng)
                o2 = r.call({"prog": pn, "op": "mtc:execute", "doc": body, "world": world, "env": env, "info": info})
                evs = o2.get("events", [])
                if [e["handler"] for e in evs] != [h["hid"]] or evs[0]["args"] != event_args(h, ct):
                    ctx.violate("exec-route", f"{pn} {h['hid']}: body {body[:100]} is routed to {[e['handler'] for e in evs]} with args {evs[0]['args'] if evs else None}",
                                dict(d, body=body, target_obs=o2))
                else:
                    ctx.nontrivial([pn, h["hid"], tname, own, body, bool(funds)])
                if len(ctx.samples) < 3 and funds:
                    ctx.sample({"program": pn, "helper": f"Remote<{tname}>.executor().with_funds(..).{h['name']}(..)", "built": m, "body": body,
                                "target_ran": [e["handler"] for e in evs]})
            else:
                ty = prog["types"][h["resp_ti"]]
                vtext = dumps(ty.gen(rng))
                vcanon = canon.one(h["resp_ti"], vtext)["ok"]
                plan = {"ok": vtext} if it % 4 else {"err_std": "query failed as planned"}
                o = r.call({"prog": pn, "op": f"query_helper:{h['hid']}:{tname}:{own}", "args": texts, "addr": addr, "plan": plan,
                            "world": draw_world(rng), "env": draw_env(rng)})
                ctx.ev()
                d = {"prog": pn, "handler": h["hid"], "handle": tname, "ownership": own, "addr": addr, "args": texts, "plan": plan, "obs": o}
                if "panic" in o:
                    ctx.violate("query-helper-panic", f"{pn} {h['hid']}: query helper panicked: {o['panic'][:100]}", d)
                    continue
                reqs = o.get("requests", [])
                if len(reqs) != 1 or "smart" not in (reqs[0].get("wasm") or {}):
                    ctx.violate("query-request", f"{pn} {h['hid']}: helper issued {json.dumps(reqs)[:160]} instead of one smart query", d)
                    continue
                sm = reqs[0]["wasm"]["smart"]
                if sm["contract_addr"] != addr:
                    ctx.violate("query-addr", f"{pn} {h['hid']}: smart query addressed to {sm['contract_addr']!r} instead of {addr!r}", d)
                evs = o.get("events", [])
                if [e["handler"] for e in evs] != [h["hid"]] or evs[0]["args"] != event_args(h, ct):
                    ctx.violate("query-route", f"{pn} {h['hid']}: query body {b64d(sm['msg'])[:100]} is routed to {[e['handler'] for e in evs]}", d)
                    continue
                if "ok" in plan:
                    if o["res"].get("ok", {}).get("value") != vcanon:
                        ctx.violate("query-value", f"{pn} {h['hid']}: helper returned {str(o['res'])[:120]} expected {vcanon[:120]}", d)
                    else:
                        ctx.nontrivial([pn, h["hid"], tname, own, b64d(sm["msg"])])
                else:
                    if "err" not in o["res"]:
                        ctx.violate("query-error-lost", f"{pn} {h['hid']}: failing target query came back as {str(o['res'])[:120]}", d)
    # instantiate builder
    inst = [h for h in handlers(prog, kind="instantiate")][0]
    for it in range(n * 2):
        texts = draw_args(rng, prog, inst)
        ct = canon_args(canon, prog, inst, texts)
        # the builder passes label and admin through as given: no trimming, no case folding, "" is not "unset" for the admin
        label = rng.choice([None, "", "lbl", "with \"quote\"", " vault", "vault\n", " ", "\tx ", "Üpper Case", "a" * 200])
        admin = rng.choice([None, "adm1", "", " adm", "ADM1", "adm\n"])
        funds = rng.choice([None, draw_funds(rng)])
        salt = rng.choice([None, None, base64.b64encode(bytes(rng.randrange(256) for _ in range(rng.choice([0, 1, 8, 64, 65, 100, 300])))).decode()])
        code_id = rng.choice([0, 1, 2**64 - 1, rng.randrange(10**6)])
        o = r.call({"prog": pn, "op": "inst_builder", "args": texts, "code_id": code_id, "label": label, "admin": admin, "funds": funds, "salt": salt})
        ctx.ev()
        d = {"prog": pn, "args": texts, "code_id": code_id, "label": label, "admin": admin, "funds": funds, "salt": salt, "obs": o}
        if "ok" not in o.get("res", {}):
            ctx.violate("inst-builder-failed", f"{pn}: instantiate builder failed: {str(o)[:160]}", d)
            continue
        m = o["res"]["ok"]
        key = "instantiate2" if salt is not None else "instantiate"
        if list(m) != [key]:
            ctx.violate("inst-variant", f"{pn}: instantiate builder produced {list(m)} expected {key}", d)
            continue
        im = dict(m[key])
        body = b64d(im.pop("msg"))
        exp = {"admin": admin, "code_id": code_id, "funds": funds or [], "label": label or ""}
        if salt is not None:
            exp["salt"] = salt
        if im != exp:
            ctx.violate("inst-fields", f"{pn}: instantiate message fields {json.dumps(im)[:160]} expected {json.dumps(exp)[:160]}", d)
        if body != doc_text(inst, ct):
            ctx.violate("inst-body", f"{pn}: instantiate body {body[:120]} expected {doc_text(inst, ct)[:120]}", d)
        o2 = r.call({"prog": pn, "op": "mtc:instantiate", "doc": body, "world": draw_world(rng), "env": draw_env(rng), "info": draw_info(rng)})
        evs = o2.get("events", [])
        if [e["handler"] for e in evs] != [inst["hid"]] or evs[0]["args"] != event_args(inst, ct):
            ctx.violate("inst-route", f"{pn}: instantiate body is routed to {[e['handler'] for e in evs]}", dict(d, target_obs=o2))
        else:
            ctx.nontrivial([pn, "inst", key, label is None, admin is None, funds is None, body])
        if len(ctx.samples) < 5 and salt:
            ctx.sample({"program": pn, "builder_options": {"label": label, "admin": admin, "funds": funds, "salt": salt}, "built": m})


def run(ctx):
    ctx.rule = ("every exec/query method with helper-safe name x handle typed by the contract or by dyn Interface x owned/borrowed x drawn args, funds, addresses; "
                "built message bytes are fed to the target's generated multitest entry and the event log must show that method with equal arguments; "
                "instantiate builder with every drawn subset of label/admin/funds/salt; non-trivial+distinct = distinct (program, method, handle type, ownership, body)")
    ctx.assumptions = ["helper method names are only called for method names on which all casing routines agree (words of >=2 letters, no digits)"]
    fam = ctx.family("general")
    n = ctx.pick(8, 80)

    def per_bin(b, progs, r):
        for p in progs:
            check_prog(ctx, r, p, n)
    fam.each_bin(per_bin)
    gen = ctx.family("generic")
    gen.each_bin(per_bin)
    ctx.cov["generic_programs"] = len(gen.progs)
    # messages renamed on the wire by a forwarded serde attribute: the helpers must still produce what the target accepts
    ren = ctx.family("renamed")
    ren.each_bin(per_bin)
    ctx.cov["renamed_programs"] = len(ren.progs)
    ctx.cov["programs"] = len(fam.progs)
