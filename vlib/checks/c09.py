"""C09 — reply data is extracted according to the declared data mode."""
import json

from .common import Canon, draw_env, draw_world, dumps
from .replies import (b64, draw_events, draw_payload, exec_envelope, ids_of, inst_envelope, pb_field, rand_bytes,
                      varint, wellformed_data)

CELLS = ["none", "wellformed", "wellformed-long", "empty-envelope", "wrong-tag", "wrong-wire-type", "truncated", "varint-too-long",
         "json-garbage", "json-wrong-type", "json-empty-inner", "json-null-inner", "bare-json", "json-invalid-utf8"]


def long_value(ty, size):
    """A value of the data type whose JSON text has at least `size` bytes (None: the type has no long values)."""
    r = ty.rust
    if r == "String":
        return "s" * size
    if r == "Option<String>":
        return "o" * size
    if r == "svmon::Pt":
        return {"x": 7, "label": "l" * size}
    if r == "Vec<u32>":
        return [i % 1000 for i in range(size)]
    if r == "Coin":
        return {"denom": "d" * size, "amount": "12"}
    return None


def draw_adversarial_msg_responses(rng, prog, canon, m):
    """`msg_responses` is context for the handler, never a source of its data: the first entry may even hold
    bytes that would be well-formed data for the method's mode."""
    c = rng.random()
    if c < 0.4:
        return []
    if c < 0.7 and m["data"] is not None:
        d, _ = wellformed_data(rng, prog, canon, m, allow_none=False)
        first = d if d is not None else b64(b"x")
    else:
        first = b64(rand_bytes(rng, rng.choice([1, 5, 40])))
    out = [{"type_url": "/cosmwasm.wasm.v1.MsgExecuteContractResponse", "value": first}]
    for i in range(rng.choice([0, 0, 1])):
        out.append({"type_url": "/x.y.Z" + str(i), "value": b64(rand_bytes(rng))})
    return out


def make_cell(rng, prog, canon, m, cell):
    """(data b64|None, expectation) ; expectation: ("value", echo text) | ("missing",) | ("error",) | ("either", ...) | ("skip",)"""
    mode = m["data"]
    enveloped = mode in ("typed", "opt", "instantiate", "instantiate_opt")
    optional = mode in ("raw_opt", "opt", "instantiate_opt")
    if cell == "none":
        if mode is None:
            return None, ("value", None)
        return None, (("value", "null") if optional else ("missing",))
    if cell == "wellformed":
        d, echo = wellformed_data(rng, prog, canon, m, allow_none=False)
        if d is None:
            d = b64(b"x")
        return d, ("value", echo)
    if cell == "wellformed-long":
        # fields of 128 bytes and more: their protobuf length prefix takes several bytes
        size = rng.choice([128, 129, 200, 300, 16383, 16384, 70000])
        if mode is None:
            return None, ("skip",)
        if mode in ("raw", "raw_opt"):
            raw = bytes(rng.randrange(256) for _ in range(size))
            return b64(raw), ("value", dumps(b64(raw)))
        if mode in ("typed", "opt"):
            v = long_value(prog["types"][m["data_ti"]], size)
            if v is None:
                return None, ("skip",)
            c = canon.one(m["data_ti"], dumps(v))["ok"]
            assert len(c.encode()) >= 128
            return b64(exec_envelope(c.encode())), ("value", c)
        which = rng.choice(["addr", "data", "both"])
        addr = "contract" + ("a" * size if which in ("addr", "both") else str(rng.randrange(10**6)))
        inner = bytes(rng.randrange(256) for _ in range(size)) if which in ("data", "both") else b"\x01\x02"
        return b64(inst_envelope(addr, inner)), ("value", dumps([addr, b64(inner)]))
    if cell == "empty-envelope":
        raw = b""
    elif cell == "wrong-tag":
        raw = bytes([(5 << 3) | 2]) + varint(3) + b"abc"
    elif cell == "wrong-wire-type":
        raw = bytes([(1 << 3) | 0]) + varint(7)
    elif cell == "truncated":
        raw = bytes([(1 << 3) | 2]) + varint(40) + b"short"
    elif cell == "varint-too-long":
        raw = bytes([(1 << 3) | 2]) + b"\xff" * 10 + b"\x01"
    elif cell == "json-garbage":
        inner = rng.choice([b"not json", b"{", b"\xff\xfe", b"[1,", b"nul"])
        raw = exec_envelope(inner)
    elif cell == "json-empty-inner":
        raw = pb_field(1, b"")  # field present, zero length
    elif cell == "json-invalid-utf8":
        # a string token whose bytes are not UTF-8 (Latin-1 text), or a document behind a byte-order mark: not JSON text
        if mode not in ("typed", "opt") or prog["types"][m["data_ti"]].rust not in ("String", "Option<String>"):
            return None, ("skip",)
        raw = exec_envelope(rng.choice([b'"caf\xe9"', b'"\xff\xfe"', b'\xef\xbb\xbf"bom"', b'"a\xc3"']))
    elif cell == "json-null-inner":
        # present data whose JSON is `null`: only a type that accepts null may decode it; for every other type it is undecodable
        # data, not absent data -- also for the optional mode
        if mode not in ("typed", "opt") or "ok" in canon.one(m["data_ti"], "null"):
            return None, ("skip",)
        raw = exec_envelope(b"null")
    elif cell == "bare-json":
        # JSON of a value of the declared type *without* the response envelope around it: the bytes are not a protobuf
        # message (a truncated length-delimited or fixed-width field / an end-group tag), so nothing may be decoded from them
        if mode not in ("typed", "opt"):
            return None, ("skip",)
        r_ = prog["types"][m["data_ti"]].rust
        if r_ in ("String", "Option<String>"):
            w = dumps(rng.choice(["hello world", "zebra", "unwrapped"]))
        elif r_ == "Uint128":
            w = dumps(rng.choice(["17", "25"]))
        elif r_ in ("u64", "Option<u32>"):
            w = rng.choice(["17", "25", "1234"])
        elif r_ == "bool":
            w = "true"
        else:
            return None, ("skip",)
        if "ok" not in canon.one(m["data_ti"], w):
            return None, ("skip",)
        raw = w.encode()
    elif cell == "json-wrong-type":
        if mode not in ("typed", "opt"):
            return None, ("skip",)
        w = dumps(prog["types"][m["data_ti"]].wrong(rng))
        ok = canon.one(m["data_ti"], w)
        if "ok" in ok:
            return None, ("skip",)
        raw = exec_envelope(w.encode())
    else:
        raise ValueError(cell)
    d = b64(raw)
    if mode is None:
        return d, ("value", None)
    if not enveloped:
        return d, ("value", dumps(d))
    if cell in ("json-garbage",) and mode in ("instantiate", "instantiate_opt"):
        # field 1 of an execute envelope is a string for the instantiate parser: inner must be utf-8
        return None, ("skip",)
    if cell in ("empty-envelope", "json-empty-inner"):
        if mode == "typed":
            return d, ("missing",)
        if mode == "opt":
            return d, ("either-none-or-missing",)  # deliberately unspecified cell (DESIGN C09)
        return d, ("unpinned",)  # instantiate parsers: an empty envelope is a valid proto3 message
    return d, ("error",)


def check_prog(ctx, r, prog, n, table_cells):
    rng = ctx.rng("c09", prog["name"])
    canon = Canon(r, prog)
    pn = prog["name"]
    tb = prog["reply_table"]
    ids = ids_of(r, prog)
    paths = ["dispatch_reply", "ep:reply", "mtc:reply"]
    cmds, meta = [], []
    for m in tb["methods"]:
        if m["reply_on"] != "success":
            continue
        name = m["serves"][0]
        for cell in CELLS:
            for it in range(n):
                data, exp = make_cell(rng, prog, canon, m, cell)
                if exp[0] == "skip":
                    continue
                from .replies import payload_for_name
                payload, pargs, _ = payload_for_name(r, rng, prog, canon, name, tb["names"][name], m["payload_names"])
                rep = {"id": ids[name], "payload": payload, "gas_used": rng.randrange(10**6),
                       "result": {"ok": {"events": draw_events(rng), "data": data, "msg_responses": draw_adversarial_msg_responses(rng, prog, canon, m)}}}
                path = paths[it % 3]
                cmds.append({"prog": pn, "op": path, "reply": rep, "world": draw_world(rng), "env": draw_env(rng), "plan": None})
                meta.append((m, cell, exp, pargs, rep, path))
    for (m, cell, exp, pargs, rep, path), o in zip(meta, r.batch(cmds)):
        ctx.ev()
        mode = m["data"] or "absent"
        key = f"{mode}:{cell}"
        d = {"prog": pn, "method": m["hid"], "mode": mode, "cell": cell, "reply": rep, "path": path, "obs": o,
             "data_type": prog["types"][m["data_ti"]].rust if "data_ti" in m else None}
        if "panic" in o:
            ctx.violate(f"panic:{key}", f"{pn}: {m['hid']} ({mode}) panicked on {cell} data: {o['panic'][:100]}", d)
            continue
        evs = o.get("events", [])
        res = o.get("res", {})
        ran = [e["handler"] for e in evs]
        if exp[0] == "value":
            want = ([["data", exp[1]]] if exp[1] is not None else []) + pargs
            if ran != [m["hid"]]:
                ctx.violate(f"not-delivered:{key}", f"{pn}: {m['hid']} ({mode}) with {cell} data was not invoked: {str(res)[:140]}", d)
            elif [list(x) for x in evs[0]["args"]] != want:
                ctx.violate(f"wrong-value:{key}", f"{pn}: {m['hid']} ({mode}) got {json.dumps(evs[0]['args'])[:140]} expected {json.dumps(want)[:140]}", d)
            else:
                ctx.nontrivial([pn, m["hid"], key, rep["result"]["ok"]["data"]])
        elif exp[0] in ("missing", "error"):
            if ran:
                ctx.violate(f"handler-ran:{key}", f"{pn}: {m['hid']} ({mode}) was invoked although the {cell} data is {'missing' if exp[0] == 'missing' else 'undecodable'}", d)
            elif "err" not in res:
                ctx.violate(f"no-error:{key}", f"{pn}: {mode} with {cell} data answered {str(res)[:120]} instead of an error", d)
            elif exp[0] == "missing" and "Missing reply data" not in res["err"].get("display", ""):
                ctx.violate(f"not-missing-error:{key}", f"{pn}: {mode} with {cell} data failed with `{res['err'].get('display','')[:100]}` instead of the missing-data error", d)
            else:
                ctx.nontrivial([pn, m["hid"], key, rep["result"]["ok"]["data"]])
        elif exp[0] == "either-none-or-missing":
            if ran == [m["hid"]] and evs[0]["args"][0] == ["data", "null"]:
                ctx.count("unspecified_cell_answered_none")
            elif not ran and "err" in res and "Missing reply data" in res["err"].get("display", ""):
                ctx.count("unspecified_cell_answered_missing_error")
            else:
                ctx.violate(f"unspecified-cell-other:{key}", f"{pn}: opt with an empty envelope neither delivered None nor failed with missing data: {str(res)[:120]} {ran}", d)
        else:  # unpinned: only record; a handler that runs must be the right one
            if ran and ran != [m["hid"]]:
                ctx.violate(f"wrong-method:{key}", f"{pn}: ran {ran}", d)
            ctx.count("unpinned_" + ("ran" if ran else "error"))
        table_cells.add(key)
        if len(ctx.samples) < 6 and cell in ("json-wrong-type", "truncated"):
            ctx.sample({"program": pn, "method": m["hid"], "mode": mode, "cell": cell, "data_b64": rep["result"]["ok"]["data"],
                        "handler_invoked": bool(ran), "answer": res})


def run(ctx):
    ctx.rule = ("every success method of the reply corpus (all 7 markers occur) x data cells {none, well-formed, empty envelope, wrong field tag, wrong wire type, "
                "declared length beyond the buffer, over-long varint, non-JSON inside a valid envelope, JSON of another type, zero-length inner field} x N drawn payloads x "
                "3 entry paths; envelopes come from an independent protobuf encoder; non-trivial+distinct = distinct (program, method, mode:cell, data bytes)")
    ctx.assumptions = ["`opt` with a present-but-empty execute envelope is unspecified (None or the missing-data error both accepted; tallied)",
                       "instantiate parsers on an empty envelope are not pinned (valid proto3 message with default fields)"]
    fam = ctx.family("replies")
    n = ctx.pick(3, 30)
    cells = set()

    def per_bin(b, progs, r):
        s = set()
        for p in progs:
            check_prog(ctx, r, p, n, s)
        return s
    for s in fam.each_bin(per_bin):
        cells |= s
    ctx.cov["mode_cell_table"] = sorted(cells)
    modes = {c.split(":")[0] for c in cells}
    ctx.cov["modes_seen"] = sorted(modes)
    ctx.exhaustive = len(modes) == 7
    if len(modes) < 7:
        from ..framework import Inconclusive
        raise Inconclusive(f"only data modes {sorted(modes)} occurred in the corpus")
