"""C20 — a stored remote handle has a stable, type-independent encoding."""
import json

ADDRS = ["", "a", "Owner", "COSMWASM1ABCDEF", "MiXeD1Case", "cosmwasm1xyz", "with space", "quote\"in", "back\\slash", "unié中", "\t\n", "{\"addr\":\"x\"}", "null", "x" * 4096,
         "\u0000", "/", " ", "emoji\U0001F600", "'"]


def json_string(s):
    """Independent JSON string escaper (RFC 8259 minimal escaping as serde writes it)."""
    out = ['"']
    for ch in s:
        o = ord(ch)
        if ch == '"':
            out.append('\\"')
        elif ch == "\\":
            out.append("\\\\")
        elif ch == "\n":
            out.append("\\n")
        elif ch == "\r":
            out.append("\\r")
        elif ch == "\t":
            out.append("\\t")
        elif o == 8:
            out.append("\\b")
        elif o == 12:
            out.append("\\f")
        elif o < 0x20:
            out.append("\\u%04x" % o)
        else:
            out.append(ch)
    out.append('"')
    return "".join(out)


def json_escaped(s):
    """The same string with every character written as a \\uXXXX escape (surrogate pairs beyond the BMP): a reader cannot borrow it from the input."""
    out = ['"']
    for ch in s:
        o = ord(ch)
        if o >= 0x10000:
            o -= 0x10000
            out.append("\\u%04x\\u%04x" % (0xD800 + (o >> 10), 0xDC00 + (o & 0x3FF)))
        else:
            out.append("\\u%04x" % o)
    out.append('"')
    return "".join(out)


def check_prog(ctx, r, prog, n_rand):
    rng = ctx.rng("c20", prog["name"])
    pn = prog["name"]
    targets = ["c"] + [p["id"] for p in prog["parts"][1:]]
    addrs = list(ADDRS)
    for _ in range(n_rand):
        addrs.append("".join(rng.choice("abcXYZ019\"\\ {}:éÜ\n") for _ in range(rng.randrange(0, 40))))
    schemas = {}
    for t in targets:
        cmds = []
        for a in addrs:
            text = "{\"addr\":" + json_string(a) + "}"
            flat = "{\"n\":7,\"addr\":" + json_string(a) + ",\"tail\":\"t\"}"
            cmds.append({"prog": pn, "op": f"remote:{t}", "addr": a, "text": text, "text_escaped": "{\"addr\":" + json_escaped(a) + "}", "flat_text": flat,
                         "new_admin": "adm" + a[:5]})
        for a, o in zip(addrs, r.batch(cmds)):
            ctx.ev()
            exp = "{\"addr\":" + json_string(a) + "}"
            if "panic" in o:
                ctx.violate("panic", f"{pn}: Remote<{t}> panicked for address {a[:40]!r}", {"prog": pn, "addr": a, "obs": o})
                continue
            v = o["res"]["ok"]
            d = {"prog": pn, "type_param": t, "addr": a[:200], "expected": exp[:300], "obs": {k: v[k] for k in ("owned", "borrowed", "decoded", "schema_name")}}
            for own in ("owned", "borrowed"):
                if v[own] != exp:
                    ctx.violate(f"encoding:{own}", f"{pn}: {own} Remote<{t}> encodes as {v[own][:80]} expected {exp[:80]}", d)
                if v[own + "_as_ref"] != a:
                    ctx.violate(f"as_ref:{own}", f"{pn}: {own} Remote<{t}> points to another address", d)
            dec = v["decoded"]
            if "ok" not in dec or dec["ok"]["as_ref"] != a or dec["ok"]["re"] != exp:
                ctx.violate("decoding", f"{pn}: decoding {exp[:60]} does not give back a handle to the same address: {str(dec)[:120]}", d)
            # embedded with serde(flatten) in an enclosing struct the handle is still just its `addr` member, both ways
            flat = "{\"n\":7,\"addr\":" + json_string(a) + ",\"tail\":\"t\"}"
            if v.get("flat_encoded") != flat:
                ctx.violate("flatten-encoding", f"{pn}: a struct flattening Remote<{t}> encodes as {str(v.get('flat_encoded'))[:100]} expected {flat[:100]}", d)
            fd = v.get("flat_decoded") or {}
            if "ok" not in fd or fd["ok"] != {"as_ref": a, "n": 7, "tail": "t"}:
                ctx.violate("flatten-decoding", f"{pn}: a struct flattening Remote<{t}> does not decode from {flat[:80]}: {str(fd)[:120]}", d)
            else:
                ctx.count("flattened_round_trips")
            # every other JSON writer says the same, every other reader (and the same text with all characters escaped) gives the same handle
            for wname, wtext in (v.get("writers") or {}).items():
                try:
                    got = json.loads(wtext)
                except ValueError:
                    got = None
                want = {"n": 7, "r": {"addr": a}, "tail": "t"} if wname.startswith("nested/") else {"addr": a}
                wexp = ("{\"n\":7,\"r\":" + exp + ",\"tail\":\"t\"}") if wname.startswith("nested/") else exp
                if got != want or ("pretty" not in wname and wtext != wexp):
                    ctx.violate(f"writer:{wname}", f"{pn}: Remote<{t}> written with {wname} is {wtext[:100]!r} expected {wexp[:100]!r}", dict(d, writer=wname, text=wtext[:300]))
                else:
                    ctx.count("writer_agreements")
            for rname, rres in (v.get("readers") or {}).items():
                if rres != {"ok": a}:
                    ctx.violate(f"reader:{rname}", f"{pn}: Remote<{t}> read with {rname} gives {str(rres)[:120]} for address {a[:40]!r}", dict(d, reader=rname, result=rres))
                else:
                    ctx.count("reader_agreements")
            if v["schema_name"] != "Remote":
                ctx.violate("schema-name", f"{pn}: schema name of Remote<{t}> is {v['schema_name']}", d)
            if v["update_admin"] != {"update_admin": {"contract_addr": a, "admin": "adm" + a[:5]}} or v["clear_admin"] != {"clear_admin": {"contract_addr": a}}:
                ctx.violate("admin-helpers", f"{pn}: admin helpers of Remote<{t}> do not address the handle's contract", dict(d, update_admin=v["update_admin"], clear_admin=v["clear_admin"]))
            # every request in one process must produce the same document (the first one is not special)
            first = schemas.setdefault(t, v["schema"])
            if v["schema"] != first:
                ctx.violate("schema-depends-on-call-order", f"{pn}: the schema document of Remote<{t}> generated later in the same process differs from the first one",
                            dict(d, first=first, later=v["schema"]))
                continue
            if a:
                ctx.nontrivial([t if t == "c" else "dyn", a])
            if len(ctx.samples) < 4 and ("\"" in a or "\\" in a):
                ctx.sample({"program": pn, "type_param": t, "address": a, "encoded": v["owned"], "decoded_back": dec})
    # one schema document holding handles to the contract and to every interface: a single `Remote` definition
    o = r.call({"prog": pn, "op": "remote_doc"})
    ctx.ev()
    defs = sorted(k for k in (o["res"]["ok"]["root"].get("definitions") or {}) if k.startswith("Remote"))
    if len(targets) > 1:
        if defs != ["Remote"]:
            ctx.violate("schema-definitions-per-type", f"{pn}: a document with Remote<{'>, Remote<'.join(targets)}> has definitions {defs} instead of one `Remote`",
                        {"prog": pn, "definitions": defs})
        else:
            ctx.nontrivial([pn, "remote_doc", len(targets)])
    base = schemas.get("c")
    for t, s in schemas.items():
        if s != base:
            ctx.violate("schema-depends-on-type", f"{pn}: schema of Remote<{t}> differs from Remote<Contract>", {"prog": pn, "type_param": t, "schema": s, "base": base})
    return base


def run(ctx):
    ctx.rule = ("Remote<T> for T in {the contract (plain and generic instance), dyn Interface<Error=..,assoc..> for each interface} x owned/borrowed x hostile and random address strings; "
                "expected text {\"addr\":<json string>} from an independent escaper; non-trivial+distinct = distinct (type-parameter class, non-empty address)")
    ctx.assumptions = ["addresses are built with Addr::unchecked"]
    fam = ctx.family("general")
    n = ctx.pick(10, 300)
    bases = []

    def per_bin(b, progs, r):
        return [check_prog(ctx, r, p, n) for p in progs]
    for l in fam.each_bin(per_bin):
        bases += l
    gen = ctx.family("generic")
    for l in gen.each_bin(per_bin):
        bases += l
    ctx.cov["generic_programs"] = len(gen.progs)
    # the same in the release profile (no debug assertions): what a deployed contract runs
    rel = ctx.family("release")
    for l in rel.each_bin(per_bin):
        bases += l
    ctx.cov["release_profile_programs"] = len(rel.progs)
    if any(b != bases[0] for b in bases):
        ctx.violate("schema-depends-on-program", "schema of Remote differs between programs", {})
    ctx.cov["programs"] = len(fam.progs)
