"""C08 — sub-message builders and reply dispatch agree on id, trigger and payload."""
import json

from ..spec import expected_reply_on, reply_method_for
from .common import Canon, draw_cosmos_msg, draw_env, draw_submsg, draw_world, dumps
from .replies import b64, draw_events, draw_payload, ids_of, rand_bytes, wellformed_data


def check_prog(ctx, r, prog, n):
    rng = ctx.rng("c08", prog["name"])
    canon = Canon(r, prog)
    pn = prog["name"]
    tb = prog["reply_table"]
    ids = ids_of(r, prog)
    ctx.ev()
    if len(set(ids.values())) != len(ids):
        ctx.violate("ids-collide", f"{pn}: distinct reply handler names share an id: {ids}", {"prog": pn, "ids": ids})
    cm = prog["custom"]["msg"]
    for name, info in tb["names"].items():
        for it in range(n):
            recv_kind = ["submsg", "wasm", "cosmos"][it % 3]
            # payload args must be valid for *some* method of this name (names within a signature group share types)
            any_m = next(m for m in tb["methods"] if name in m["serves"])
            payload, pargs, texts = draw_payload(rng, prog, canon, info["payload"], any_m["payload_names"])
            if recv_kind == "submsg":
                recv = draw_submsg(rng, custom_msg=cm, allow_custom=cm)
            elif recv_kind == "wasm":
                recv = draw_cosmos_msg(rng, kinds=[rng.choice(["wasm_exec", "wasm_inst"])])["wasm"]
            else:
                recv = draw_cosmos_msg(rng, custom_msg=cm, allow_custom=cm, kinds=["bank", "wasm_exec", "staking", "custom"] if cm else ["bank", "wasm_exec", "staking"])
            o = r.call({"prog": pn, "op": f"builder:{name}:{recv_kind}", "recv": recv, "args": texts})
            ctx.ev()
            d = {"prog": pn, "name": name, "receiver": recv_kind, "recv": recv, "payload_args": texts, "obs": o,
                 "cover": info["cover"]}
            if "ok" not in o.get("res", {}):
                ctx.violate(f"builder-failed:{recv_kind}", f"{pn}: builder `{name}` on {recv_kind} failed: {str(o)[:160]}", d)
                continue
            sm = o["res"]["ok"]
            if sm["id"] != ids[name]:
                ctx.violate(f"id:{recv_kind}", f"{pn}: builder `{name}` stamps id {sm['id']} but {name.upper()}_REPLY_ID is {ids[name]}", d)
            exp_on = expected_reply_on(tb, name)
            if sm["reply_on"] != exp_on:
                ctx.violate(f"reply_on:{info['cover']}:{recv_kind}", f"{pn}: builder `{name}` requests reply_on={sm['reply_on']} but methods cover `{info['cover']}` (expected {exp_on})", d)
            exp_msg = recv["msg"] if recv_kind == "submsg" else ({"wasm": recv} if recv_kind == "wasm" else recv)
            if sm["msg"] != exp_msg:
                ctx.violate(f"msg:{recv_kind}", f"{pn}: builder `{name}` changed the wrapped message", d)
            if recv_kind == "submsg" and sm["gas_limit"] != recv["gas_limit"]:
                ctx.violate("gas_limit", f"{pn}: builder `{name}` changed gas_limit {recv['gas_limit']} -> {sm['gas_limit']}", d)
            if info["payload"] == "raw" and sm["payload"] != payload:
                ctx.violate("raw-payload", f"{pn}: raw payload not carried byte for byte", d)
            # deliver the eventual reply for every outcome that has a method
            for ok in (True, False):
                m = reply_method_for(tb, name, ok)
                if m is None:
                    continue
                if ok:
                    if m["reply_on"] == "success":
                        data, decho = wellformed_data(rng, prog, canon, m)
                    else:
                        data, decho = None, None
                    result = {"ok": {"events": draw_events(rng), "data": data, "msg_responses": []}}
                else:
                    result = {"error": "failed " + str(rng.randrange(100))}
                rep = {"id": sm["id"], "payload": sm["payload"], "gas_used": 3, "result": result}
                o2 = r.call({"prog": pn, "op": "dispatch_reply", "reply": rep, "world": draw_world(rng), "env": draw_env(rng), "plan": None})
                ctx.ev()
                evs = o2.get("events", [])
                d2 = dict(d, reply=rep, reply_obs=o2, method=m["hid"])
                if [e["handler"] for e in evs] != [m["hid"]]:
                    ctx.violate(f"roundtrip-route:{recv_kind}", f"{pn}: reply to a `{name}` sub-message ran {[e['handler'] for e in evs]} instead of {m['hid']}: {str(o2.get('res'))[:120]}", d2)
                    continue
                got = [list(x) for x in evs[0]["args"]]
                k = len(pargs)
                exp = [[pn_, c] for pn_, (_, c) in zip(m["payload_names"], pargs)]
                if not m.get("raw_mark") and m["payload"] != "raw" and len(m["payload"]) == 1 and prog["types"][m["payload"][0]].rust == "Binary":
                    ctx.count("unmarked_binary_payload_roundtrips")
                if got[len(got) - k:] != exp:
                    ctx.violate(f"roundtrip-payload:{recv_kind}", f"{pn}: `{name}` payload delivered as {json.dumps(got[len(got)-k:])[:160]} but the builder was given {json.dumps(exp)[:160]}", d2)
                else:
                    ctx.nontrivial([pn, name, recv_kind, ok, sm["payload"]])
            ctx.count("builders_" + recv_kind)
            if len(ctx.samples) < 4 and info["payload"] != "raw" and len(info["payload"]) > 1:
                ctx.sample({"program": pn, "name": name, "receiver": recv_kind, "payload_args": texts, "built": sm})


def run(ctx):
    ctx.rule = ("reply-table programs; for every name x receiver (SubMsg with random id/gas_limit/reply_on/payload, WasmMsg, CosmosMsg) x N payload tuples: "
                "built sub-message vs spec, then the eventual reply (Ok and Err where a method exists) is dispatched and the echoed payload parameters must equal "
                "the builder arguments; non-trivial+distinct = distinct (program, name, receiver, outcome, payload bytes)")
    ctx.assumptions = ["reply handler names are helper-safe words so that NAME_REPLY_ID and the builder method can be named"]
    fam = ctx.family("replies")
    n = ctx.pick(9, 90)

    def per_bin(b, progs, r):
        for p in progs:
            check_prog(ctx, r, p, n)
    fam.each_bin(per_bin)
    ctx.cov["programs"] = len(fam.progs)
