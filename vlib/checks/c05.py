"""C05 — name collisions are rejected at build time; published name lists are right."""
import itertools
import json

from .. import rustc_engine, render, spec
from .. import types as T
from ..spec import KINDS_ENUM, handlers
from .common import Canon, canon_args, draw_args

ALPHA5 = ["", "a", "a_", "aa", "b"]
ALPHA4 = ["a", "ab", "b", "msg_a"]
HOSTILE = ["", "a", "aa", "a_", "_a", "A", "Ab", "b", "msg", "msg_a", "msg_b", "é", "ü", "中", "a b", "0", "00", "transfer2", "transfer_2"]


def subsets(alpha):
    out = []
    for m in range(1 << len(alpha)):
        out.append(sorted(alpha[i] for i in range(len(alpha)) if m >> i & 1))
    return out


def overlaps(t):
    seen = set()
    for l in t:
        for s in l:
            if s in seen:
                return True
        seen.update(l)
    return False


def lib_part(ctx, r):
    rng = ctx.rng("c05a")
    s5, s4 = subsets(ALPHA5), subsets(ALPHA4)
    spaces = []
    for n in (0, 1, 2, 3):
        spaces.append(("N<=3 over 5 names", itertools.product(s5, repeat=n)))
    spaces.append(("N=4 over 4 names", itertools.product(s4, repeat=4)))
    n_rand = ctx.pick(20000, 300000)

    def rand_tuples():
        for _ in range(n_rand):
            n = rng.randrange(0, 7)
            t = []
            for _ in range(n):
                k = rng.choice([0, 0, 1, 2, 3, 5, 8])
                t.append(sorted(set(rng.choice(HOSTILE) if rng.random() < 0.7 else "".join(rng.choice("ab_") for _ in range(rng.randrange(0, 4)))
                                    for _ in range(k))))
            yield tuple(t)
    spaces.append(("random", rand_tuples()))
    shown = 0
    for label, it in spaces:
        batch = []
        def flush():
            nonlocal shown
            if not batch:
                return
            o = r.call({"prog": "lib", "op": "no_intersection_many", "tuples": batch})
            for t, panicked in zip(batch, o["res"]["ok"]):
                ctx.ev()
                exp = overlaps(t)
                ctx.count("lib_tuples_" + ("overlapping" if exp else "disjoint"))
                if panicked != exp:
                    ctx.violate("lib:" + ("missed-overlap" if exp else "false-overlap"),
                                f"assert_no_intersection {'accepts overlapping' if exp else 'rejects disjoint'} lists {json.dumps(t)}",
                                {"lists": t, "panicked": panicked, "overlap": exp})
                if exp and sum(1 for l in t if l) >= 2:
                    ctx.nontrivial(["lib", t])
                if exp and len(t) >= 3 and shown < 2:
                    ctx.sample({"lists": t, "panicked": panicked, "overlap_expected": exp})
                    shown += 1
            batch.clear()
        for t in it:
            batch.append([list(l) for l in t])
            if len(batch) >= 2000:
                flush()
        flush()
    ctx.cov["lib_exhaustive_spaces"] = ["all tuples of N<=3 sorted duplicate-free lists over " + json.dumps(ALPHA5),
                                        "all 4-tuples over " + json.dumps(ALPHA4)]


def published_lists(ctx, r, prog):
    """(c): *_messages() of every part is sorted and equals the names its variants serialise under."""
    rng = ctx.rng("c05c", prog["name"])
    canon = Canon(r, prog)
    pn = prog["name"]
    for part in prog["parts"]:
        for kind in KINDS_ENUM:
            keys = set()
            for h in handlers(prog, kind=kind, part=part["id"]):
                texts = draw_args(rng, prog, h)
                o = r.call({"prog": pn, "op": "build:" + h["hid"], "args": texts})
                keys.add(next(iter(json.loads(o["res"]["ok"]["literal"]).keys())))
            o = r.call({"prog": pn, "op": f"names:{part['id']}:{kind}"})
            lst = o["res"]["ok"]
            ctx.ev()
            detail = {"prog": pn, "part": part["id"], "kind": kind, "published": lst, "serialised": sorted(keys)}
            if lst != sorted(lst):
                ctx.violate("list-unsorted", f"{pn}: {part['id']} {kind} name list is not sorted: {lst}", detail)
            if len(set(lst)) != len(lst) or set(lst) != keys:
                ctx.violate("list-mismatch", f"{pn}: {part['id']} {kind} publishes {lst} but serialises under {sorted(keys)}", detail)
            if len(keys) >= 2:
                ctx.nontrivial(["list", pn, part["id"], kind])
            if len(keys) >= 3 and len(ctx.samples) < 5:
                ctx.sample(detail)


def collision_programs(ctx):
    """Pairs (clash, twin): a valid program and the same program with one wire name made to clash."""
    n = ctx.pick(10, 60)
    mods, meta = {}, {}
    i = 0
    tries = 0
    while i < n and tries < n * 20:
        tries += 1
        rng = ctx.rng("c05b", tries)
        p = spec.gen_program(rng, f"col{i:03d}", n_ifaces=rng.choice([1, 2, 3]))
        kind = rng.choice(KINDS_ENUM)
        by_part = {}
        for h in handlers(p, kind=kind):
            by_part.setdefault(h["part"], []).append(h)
        if len(by_part) < 2:
            continue
        pa, pb = rng.sample(sorted(by_part), 2)
        ha, hb = rng.choice(by_part[pa]), rng.choice(by_part[pb])
        if i % 3 == 2:
            # a generic contract: the check must not wait for somebody to instantiate the messages with concrete types
            p["generics"] = [{"name": "ParamT", "concrete": "u32"}]
        if i % 2 == 1:
            # the user's own entry point for that kind does not lift the rule: the generated wrapper is still there
            p["overrides"] = [{"kind": kind, "fn": f"ov_{kind}", "msg": "svmon::OvMsg"}]
        # twin without the clash
        mods[f"ok{i:03d}"] = render.R(p).source(with_glue=False)
        meta[f"ok{i:03d}"] = {"expect": "accept", "kind": kind}
        # a name shared only across kinds must be fine too
        import copy
        q = copy.deepcopy(p)
        q["types"] = p["types"]
        other = [h for h in handlers(q) if h["kind"] in KINDS_ENUM and h["kind"] != kind and h["part"] != pa]
        hq = [h for h in handlers(q, kind=kind, part=pa)][0]
        if other:
            o = rng.choice(other)
            taken = {T.wire_name(h["name"]) for h in handlers(q, part=o["part"])} | {T.wire_name(h["name"]) for h in handlers(q, kind=o["kind"])}
            if T.wire_name(hq["name"]) not in taken:
                o["name"] = hq["name"]
                mods[f"xk{i:03d}"] = render.R(q).source(with_glue=False)
                meta[f"xk{i:03d}"] = {"expect": "accept", "kind": kind, "note": f"{hq['name']} shared across kinds {kind}/{o['kind']}"}
        c = copy.deepcopy(p)
        c["types"] = p["types"]
        hb2 = [h for h in handlers(c, kind=kind, part=pb) if h["name"] == hb["name"]][0]
        if any(T.wire_name(h["name"]) == T.wire_name(ha["name"]) for h in handlers(c, part=pb)):
            continue
        hb2["name"] = ha["name"]
        if i % 4 == 0:
            # a forwarded attribute that re-cases the *fields* of the variant leaves its name where it was
            hb2["sv_attrs"] = list(hb2.get("sv_attrs", [])) + ["serde(rename_all = \"snake_case\")"]
        mods[f"cl{i:03d}"] = render.R(c).source(with_glue=False)
        meta[f"cl{i:03d}"] = {"expect": "reject", "kind": kind, "name": ha["name"], "parts": [pa, pb], "overridden": bool(c.get("overrides"))}
        n_if = len(c["parts"]) - 1
        if n_if >= 2:
            # the same colliding contract with its sv::messages declarations in the opposite order: rejected all the same
            mods[f"cr{i:03d}"] = render.R(c, order={"messages": list(reversed(range(n_if)))}).source(with_glue=False)
            meta[f"cr{i:03d}"] = dict(meta[f"cl{i:03d}"], messages_order="reversed")
        i += 1
    return mods, meta


def build_part(ctx):
    mods, meta = collision_programs(ctx)
    res = rustc_engine.verdicts(ctx, "c05", mods, mode="check")
    for m, diags in res.items():
        ctx.ev()
        info = meta[m]
        if info["expect"] == "accept":
            if diags:
                ctx.violate("build:rejects-disjoint", f"program without a shared name does not compile: {diags[0]['message'][:140]}",
                            {"module": m, "meta": info, "diagnostics": diags[:3], "source": mods[m]})
            ctx.count("build_accept_programs")
        else:
            txt = " ".join((d["message"] or "") + " " + d.get("notes", "") + d.get("rendered", "") for d in diags)
            if not diags:
                ctx.violate("build:accepts-collision", f"contract compiles although {info['parts']} share the {info['kind']} message `{info['name']}`",
                            {"module": m, "meta": info, "source": mods[m]})
            elif "overlaps" not in txt:
                ctx.violate("build:other-error", f"colliding program fails, but not with the overlap diagnostic: {diags[0]['message'][:140]}",
                            {"module": m, "meta": info, "diagnostics": diags[:3]})
            else:
                ctx.nontrivial(["build", m, info["name"], info["kind"]])
            ctx.count("build_reject_programs")
            if len(ctx.samples) < 7 and diags:
                ctx.sample({"module": m, "shared_name": info["name"], "kind": info["kind"], "parts": info["parts"], "rustc": diags[0]["message"]})


def run(ctx):
    ctx.rule = ("(a) sylvia::utils::assert_no_intersection executed at run time on enumerated and random tuples of sorted duplicate-free lists, "
                "panic <=> some string occurs in two lists; (b) generated contracts with / without a wire name shared between two parts, rustc verdict; "
                "(c) published *_messages() vs observed serialised names; non-trivial+distinct = distinct overlapping tuples with >=2 non-empty lists, "
                "distinct colliding programs rejected with the overlap diagnostic, distinct (program, part, kind) lists with >=2 names")
    ctx.assumptions = ["byte-wise string order (what Rust's sort and konst::cmp_str use)"]
    ctx.exhaustive = True
    fam = ctx.family("general")
    r = fam.runner(sorted(fam.bins())[0])
    try:
        lib_part(ctx, r)
    finally:
        r.close()
    # the same enumeration against a release-profile build (debug assertions off): the check is not a debug-only check
    rel = ctx.family("release")
    r2 = rel.runner(sorted(rel.bins())[0])
    try:
        lib_part(ctx, r2)
        ctx.cov["lib_check_also_in_release_profile"] = True
    finally:
        r2.close()

    def per_bin(b, progs, r):
        for p in progs:
            published_lists(ctx, r, p)
    fam.each_bin(per_bin)
    build_part(ctx)
