"""C06 — entry points exist exactly for defined, non-overridden kinds and forward calls."""
import json

from .. import render, rustc_engine, spec
from ..spec import ALL_EP_KINDS, EP_OF, KINDS_ENUM, handlers, part_by_id
from .common import (Canon, api_probe_of, canon_args, doc_text, draw_args, draw_env, draw_info, draw_world, dumps)
from .c02 import compare_call, draw_plan, expected_event
from . import c07


def expected_eps(prog):
    c = prog["parts"][0]
    ks = ["instantiate", "exec", "query", "sudo"]
    if any(h["kind"] == "migrate" for h in c["handlers"]):
        ks.append("migrate")
    if any(h["kind"] == "reply" for h in c["handlers"]):
        ks.append("reply")
    ov = {o["kind"] for o in prog.get("overrides", [])}
    return [k for k in ks if k not in ov], [k for k in ALL_EP_KINDS if k not in ks or k in ov]


def behaviour(ctx, r, prog, n):
    rng = ctx.rng("c06", prog["name"])
    canon = Canon(r, prog)
    pn = prog["name"]
    present, absent = expected_eps(prog)
    cfg = prog.get("ep_config")
    for k in present:
        if k == "reply":
            continue
        for h in handlers(prog, kind=k):
            part = part_by_id(prog, h["part"])
            for it in range(n):
                texts = draw_args(rng, prog, h)
                ct = canon_args(canon, prog, h, texts)
                doc = doc_text(h, ct)
                world, env, info = draw_world(rng), draw_env(rng), draw_info(rng)
                plan, exp_res, cls = draw_plan(rng, prog, part, h, canon, ["ok", "err_own", "err_std"][it % 3])
                o = r.call({"prog": pn, "op": f"ep:{EP_OF[k]}", "doc": doc, "world": world, "env": env, "info": info, "plan": plan})
                ctx.ev()
                good = compare_call(ctx, prog, h, "entry_point", o, expected_event(h, ct, world, env, info), exp_res, world, cls)
                if good and o.get("new_calls") != 1:
                    ctx.violate(f"constructor:{k}", f"{pn}: entry point {k} built the contract {o.get('new_calls')} times with new()", {"prog": pn, "obs": o})
                    good = False
                if good:
                    ctx.nontrivial([pn, k, h["hid"], cls, doc, json.dumps(cfg)])
                    ctx.count("ep_calls_" + k)
    # reply entry point
    c = prog["parts"][0]
    if "reply" in present:
        if prog.get("reply_table"):
            c07.check_prog(ctx, r, prog, max(3, n // 2))
        else:
            for it in range(n):
                rep = {"id": rng.randrange(100), "payload": "", "gas_used": rng.randrange(1000),
                       "result": rng.choice([{"error": "e"}, {"ok": {"events": [], "data": None, "msg_responses": []}}])}
                world, env = draw_world(rng), draw_env(rng)
                o = r.call({"prog": pn, "op": "ep:reply", "reply": rep, "world": world, "env": env, "plan": None})
                ctx.ev()
                evs = o.get("events", [])
                lhid = next(h["hid"] for h in c["handlers"] if h.get("legacy"))
                if [e["handler"] for e in evs] != [lhid] or json.loads(evs[0]["args"][0][1]) != rep \
                        or evs[0]["storage_probe"] != world["probe"] or o.get("new_calls") != 1:
                    ctx.violate("legacy-reply", f"{pn}: legacy reply entry point did not forward the reply to the reply method", {"prog": pn, "reply": rep, "obs": o})
                else:
                    ctx.nontrivial([pn, "legacy-reply", rep["id"], rep["gas_used"]])
    # overridden kinds: the multitest impl must call the user's function, with the caller's context
    for ov in prog.get("overrides", []):
        k = ov["kind"]
        for it in range(max(2, n // 3)):
            tag = rng.randrange(2**32)
            world, env, info = draw_world(rng), draw_env(rng), draw_info(rng)
            cmd = {"prog": pn, "op": f"mtc:{EP_OF[k]}", "world": world, "env": env, "info": info,
                   "plan": ({"ok": "7"} if k == "query" else None)}
            if k == "reply":
                cmd["reply"] = {"id": tag, "payload": "", "gas_used": 0, "result": {"error": "x"}}
                exp_args = [["id", str(tag)]]
            else:
                cmd["doc"] = dumps({"tag": tag})
                exp_args = [["tag", str(tag)]]
            o = r.call(cmd)
            ctx.ev()
            evs = o.get("events", [])
            hid = f"ov.{k}.{ov['fn']}"
            if [e["handler"] for e in evs] != [hid] or evs[0]["args"] != exp_args or evs[0]["storage_probe"] != world["probe"] \
                    or evs[0]["api_probe"] != api_probe_of(world["api_prefix"]):
                ctx.violate(f"override-not-used:{k}", f"{pn}: multitest {k} did not call the overriding entry point {ov['fn']}: ran {[e['handler'] for e in evs]} {str(o.get('res'))[:100]}",
                            {"prog": pn, "config": cfg, "obs": o})
            else:
                ctx.nontrivial([pn, "override", k, tag])
                ctx.count("override_calls_" + k)


def existence(ctx, fam):
    """Each emitted entry point can be named; each absent one cannot (rustc verdict)."""
    mods, meta = {}, {}
    for p in fam.progs:
        present, absent = expected_eps(p)
        src = render.R(p).source(with_glue=False)
        refs = "".join(f"    let _ = entry_points::{EP_OF[k]};\n" for k in present)
        mods[f"{p['name']}_ok"] = src + "pub fn probe() {\n" + refs + "}\n"
        meta[f"{p['name']}_ok"] = (p, "accept", present)
        for k in absent:
            mods[f"{p['name']}_no_{k}"] = src + f"pub fn probe() {{\n    let _ = entry_points::{EP_OF[k]};\n}}\n"
            meta[f"{p['name']}_no_{k}"] = (p, "reject", k)
    res = rustc_engine.verdicts(ctx, "c06", mods)
    for m, diags in res.items():
        p, exp, what = meta[m]
        ctx.ev()
        cfg = p.get("ep_config")
        if exp == "accept":
            if diags:
                ctx.violate("missing-entry-point", f"{p['name']} {cfg}: an expected entry point of {what} cannot be named: {diags[0]['message'][:120]}",
                            {"prog": p["name"], "config": cfg, "diagnostics": diags[:3], "source": mods[m]})
            else:
                ctx.nontrivial([p["name"], "present", what, json.dumps(cfg)])
        else:
            txt = " ".join(d["message"] or "" for d in diags)
            if not diags:
                ctx.violate(f"unexpected-entry-point:{what}", f"{p['name']} {cfg}: entry point `{what}` exists although it is overridden / has no handler",
                            {"prog": p["name"], "config": cfg, "source": mods[m]})
            elif "cannot find" not in txt and "is private" not in txt:
                # ("is private": the name resolves to the user's own function of that name, glob-imported into the module -- not an entry point)
                ctx.violate("probe-other-error", f"{p['name']}: probe for `{what}` failed differently: {diags[0]['message'][:120]}",
                            {"prog": p["name"], "config": cfg, "diagnostics": diags[:3]})
            else:
                ctx.nontrivial([p["name"], "absent", what, json.dumps(cfg)])
        ctx.count("existence_probes")
    ctx.sample({"existence_probe_example": {"module": next(iter(mods)), "expects": "compiles"},
                "configs": [p.get("ep_config") for p in fam.progs][:6]})


PLAIN_TEMPLATE = """use sylvia::cw_std::{{Binary, Deps, DepsMut, Empty, Env, MessageInfo, Reply, Response, StdResult}};
use sylvia::ctx::{{ExecCtx, InstantiateCtx, MigrateCtx, QueryCtx, SudoCtx}};
pub fn ov_instantiate(_d: DepsMut, _e: Env, _i: MessageInfo, _m: Empty) -> StdResult<Response> {{ Ok(Response::new()) }}
pub fn ov_exec(_d: DepsMut, _e: Env, _i: MessageInfo, _m: Empty) -> StdResult<Response> {{ Ok(Response::new()) }}
pub fn ov_query(_d: Deps, _e: Env, _m: Empty) -> StdResult<Binary> {{ Ok(Binary::default()) }}
pub fn ov_sudo(_d: DepsMut, _e: Env, _m: Empty) -> StdResult<Response> {{ Ok(Response::new()) }}
pub fn ov_migrate(_d: DepsMut, _e: Env, _m: Empty) -> StdResult<Response> {{ Ok(Response::new()) }}
pub struct Contract;
#[sylvia::entry_points]
#[sylvia::contract]
{overrides}
impl Contract {{
    pub fn new() -> Self {{ Contract }}
    #[sv::msg(instantiate)]
    fn instantiate(&self, _ctx: InstantiateCtx) -> StdResult<Response> {{ Ok(Response::new()) }}
    #[sv::msg(exec)]
    fn poke(&self, _ctx: ExecCtx) -> StdResult<Response> {{ Ok(Response::new()) }}
    #[sv::msg(query)]
    fn peek(&self, _ctx: QueryCtx) -> StdResult<u32> {{ Ok(1) }}
    #[sv::msg(sudo)]
    fn tick(&self, _ctx: SudoCtx) -> StdResult<Response> {{ Ok(Response::new()) }}
    #[sv::msg(migrate)]
    fn migrate(&self, _ctx: MigrateCtx) -> StdResult<Response> {{ Ok(Response::new()) }}
}}
pub fn probe() {{
{probes}}}
"""


def existence_without_mt(ctx):
    """The same existence probes in a crate that depends on the framework with its *default* features only (no `mt`: the
    configuration every wasm build uses); the corpus workspace always has `mt` on because the monitors need it."""
    kinds = ["instantiate", "exec", "query", "sudo", "migrate"]
    import itertools
    subsets = [()] + [(k,) for k in kinds] + [tuple(kinds)] + [tuple(c) for c in itertools.combinations(kinds, 2)][::3]
    mods, meta = {}, {}
    for i, ov in enumerate(subsets):
        attrs = "\n".join(f"#[sv::override_entry_point({k}=ov_{k}(Empty))]" for k in ov)
        present = [k for k in kinds if k not in ov]
        mods[f"nm{i:02d}_ok"] = PLAIN_TEMPLATE.format(overrides=attrs, probes="".join(f"    let _ = entry_points::{EP_OF[k]};\n" for k in present))
        meta[f"nm{i:02d}_ok"] = (ov, "accept", present)
        for k in ov:
            mods[f"nm{i:02d}_no_{k}"] = PLAIN_TEMPLATE.format(overrides=attrs, probes=f"    let _ = entry_points::{EP_OF[k]};\n")
            meta[f"nm{i:02d}_no_{k}"] = (ov, "reject", k)
    res = rustc_engine.verdicts(ctx, "c06nomt", mods, features=[], with_svmon=False)
    for m, diags in res.items():
        ov, exp, what = meta[m]
        ctx.ev()
        txt = " ".join(d["message"] or "" for d in diags)
        d = {"overrides": list(ov), "module": m, "source": mods[m], "diagnostics": diags[:3]}
        if exp == "accept" and diags:
            ctx.violate("nomt:missing-entry-point", f"without `mt`, overrides {list(ov)}: an entry point of {what} cannot be named: {diags[0]['message'][:120]}", d)
        elif exp == "reject" and not diags:
            ctx.violate(f"nomt:unexpected-entry-point:{what}", f"without `mt`, overrides {list(ov)}: the default `{what}` entry point is generated although that kind is overridden", d)
        elif exp == "reject" and "cannot find" not in txt and "is private" not in txt:
            ctx.violate("nomt:probe-other-error", f"without `mt`: probe for `{what}` failed differently: {diags[0]['message'][:120]}", d)
        else:
            ctx.nontrivial(["nomt", list(ov), exp, str(what)])
            ctx.count("existence_probes_without_mt")


def structure(ctx):
    """In-process: the set of emitted entry-point functions for every override subset, and the text of the
    functions that are not overridden compared with the expansion without any override."""
    import itertools
    from .. import inproc_engine
    kinds = ALL_EP_KINDS
    subsets = [c for n in range(len(kinds) + 1) for c in itertools.combinations(kinds, n)]
    jobs, meta = [], {}
    nbase = ctx.pick(4, 24)
    for b in range(nbase):
        rng = ctx.rng("c06s", b)
        migrate = bool(b % 2)
        reply = [None, "legacy", "table", "feature-only"][b % 4]
        generic = (b % 5 == 3)
        base = spec.gen_ep_config_program(rng, f"s{b:02d}", (), migrate, reply, True)
        if generic:
            base["generics"] = [{"name": "T1", "concrete": "u32"}, {"name": "ParamT", "concrete": "String"}]
        chosen = subsets if (not ctx.quick or b < 2) else [s_ for i, s_ in enumerate(subsets) if i == 0 or i % 4 == b % 4]
        # the same kind marked twice (with another one in between) is still just that kind
        chosen = list(chosen) + [(k1, k2, k1) for k1, k2 in [tuple(rng.sample(kinds, 2)) for _ in range(ctx.pick(4, 12))]]
        for i, ov in enumerate(chosen):
            import copy
            q = copy.copy(base)
            q["overrides"] = [{"kind": k, "fn": f"ov_{k}" + ("_again" if k in ov[:j] else ""), "msg": "svmon::OvMsg"} for j, k in enumerate(ov)]
            R = render.R(q)
            item = R.contract_item(True)
            attr = None
            if generic:
                attr = "generics<u32, String>"
            jid = f"s{b:02d}_{i:02d}"
            jobs.append((jid, "entry_points", attr, item, True))
            meta[jid] = (b, ov, migrate, reply, generic)
    res = inproc_engine.run_jobs(ctx, "c06", jobs)
    base_fns = {}
    for jid, (b, ov, migrate, reply, generic) in meta.items():
        if ov == ():
            r = res[jid]
            base_fns[b] = {it["sig"]["name"]: it["text"] for it in r.get("view", []) if it["k"] == "fn" and it["path"] == "::entry_points"}
    for jid, (b, ov, migrate, reply, generic) in meta.items():
        r = res[jid]
        ctx.ev()
        cfg = {"overrides": list(ov), "migrate": migrate, "reply": reply, "generic": generic}
        if r["status"] != "clean":
            ctx.violate("config-rejected", f"entry_points expansion of configuration {cfg} is {r['status']} {r.get('panic','')[:80]}", {"config": cfg, "result": {k: v for k, v in r.items() if k != 'view'}})
            continue
        fns = {it["sig"]["name"]: it["text"] for it in r["view"] if it["k"] == "fn" and it["path"] == "::entry_points"}
        want = {"instantiate", "execute", "query", "sudo"} | ({"migrate"} if migrate else set()) | ({"reply"} if reply in ("legacy", "table") else set())
        want -= {EP_OF[k] for k in ov}
        d = {"config": cfg, "emitted": sorted(fns), "expected": sorted(want)}
        if set(fns) != want:
            ctx.violate("entry-point-set:" + ("missing" if want - set(fns) else "extra"), f"configuration {cfg}: emitted entry points {sorted(fns)} expected {sorted(want)}", d)
            continue
        changed = [n for n in fns if base_fns[b].get(n) != fns[n]]
        if changed:
            ctx.violate("override-alters-other", f"configuration {cfg}: overriding changed the text of non-overridden entry points {changed}", dict(d, changed=changed))
            continue
        ctx.nontrivial(["structure", b, list(ov)])
        ctx.count("structure_configs")
    ctx.cov["structure_override_subsets"] = len({m[1] for m in meta.values()})


def run(ctx):
    ctx.rule = ("entry-point configurations (override subsets x migrate handler x reply handler none/legacy/table; quick: empty, each single kind, all six, 8 random subsets; "
                "thorough: all 64 subsets): (1) rustc verdict on probes naming each expected / each absent entry point; (2) every emitted entry point is called with drawn "
                "messages and must behave like dispatch on a freshly constructed contract (one new() call, caller's deps/env/info, contract error type); (3) overridden kinds "
                "reach the user's function through the generated multitest impl; non-trivial+distinct = distinct (program, kind, handler, plan, doc, config) and probe verdicts")
    ctx.assumptions = ["structure of the emitted module is additionally observed in-process by C13/C14 harness runs"]
    fam = ctx.family("epcfg")
    gen = ctx.family("general")
    n = ctx.pick(6, 30)

    def per_bin(b, progs, r):
        for p in progs:
            behaviour(ctx, r, p, n)
    fam.each_bin(per_bin)
    gen.each_bin(lambda b, progs, r: [behaviour(ctx, r, p, 2) for p in progs[:ctx.pick(1, 6)]])
    # generic contracts: entry points are generated for the concrete types named in entry_points(generics<..>)
    gfam = ctx.family("generic")
    gfam.each_bin(lambda b, progs, r: [behaviour(ctx, r, p, 3) for p in progs])
    ctx.cov["generic_programs"] = len(gfam.progs)
    existence(ctx, fam)
    existence_without_mt(ctx)
    structure(ctx)
    ctx.cov["configurations"] = len(fam.progs)
    ctx.cov["override_subsets_seen"] = sorted({",".join(p["ep_config"]["overrides"]) for p in fam.progs})
    ctx.exhaustive = (not ctx.quick)
