"""Program families: generated corpora compiled into runner binaries.

Each family is a set of cargo packages in the per-tier workspace; a check builds only the
packages of the families it needs.  A generated program that the repository under test
refuses to compile is removed from its bin (up to a few rounds) and reported by the check
as a violation: every property is quantified over all valid programs.
"""
import concurrent.futures
import json
import os
import re
import subprocess
import time

from . import corpus, render, runner, spec
from .framework import Inconclusive


class Family:
    def __init__(self, ctx, name):
        self.ctx = ctx
        self.name = name
        self.progs = []      # prog dicts with "bin"
        self.refused = []    # (prog, [diag])
        self.ws = None
        self.build_s = 0.0
        self.release = False

    def bins(self):
        out = {}
        for p in self.progs:
            out.setdefault(p["bin"], []).append(p)
        return out

    def runner(self, b, record=True):
        rec = None
        if record:
            rec = open(os.path.join(self.ctx.workdir, f"log_{b}.jsonl"), "w")
        return runner.Runner(self.ws.bin_path(b, release=self.release), record=rec)

    def each_bin(self, fn, threads=16):
        """fn(bin_name, progs, runner) in a thread pool; exceptions propagate."""
        items = sorted(self.bins().items())

        def work(it):
            b, progs = it
            r = self.runner(b)
            try:
                return fn(b, progs, r)
            finally:
                r.close()
                if r.record:
                    r.record.close()
        with concurrent.futures.ThreadPoolExecutor(max_workers=threads) as ex:
            return list(ex.map(work, items))


def _render(prog):
    cls = prog.get("_renderer") or render.R
    return cls(prog, **prog.get("_render_kw", {})).source()


def build_family(ctx, fam, progs_by_bin, sv_by_bin=None, release=False):
    """progs_by_bin: {bin: [prog]}.  Emits, builds with exclusion rounds, returns Family.
    release: the release profile (no debug assertions, no overflow checks), the configuration contracts are deployed in."""
    ws = corpus.Workspace(ctx.label)
    # keep bins of other families already on disk: a workspace is shared by all checks
    reg_path = os.path.join(ws.root, "families.json")
    try:
        reg = json.load(open(reg_path))
    except (FileNotFoundError, ValueError):
        reg = {}
    f = Family(ctx, fam)
    f.ws = ws
    f.release = release
    sources = {}
    for b, progs in progs_by_bin.items():
        for p in progs:
            p["bin"] = b
            sources[p["name"]] = _render(p)
    refused = {}
    for rnd in range(4):
        bins = {}
        for b, progs in progs_by_bin.items():
            bins[b] = {p["name"]: sources[p["name"]] for p in progs if p["name"] not in refused}
        reg[fam] = {"seed": ctx.seed, "bins": {b: sorted(v) for b, v in bins.items()}}
        _emit_bins(ws, bins, (sv_by_bin or {}))
        corpus.write_if_changed(reg_path, json.dumps(reg, indent=1, sort_keys=True))
        ok, diags, stderr, dt = _build(ws, sorted(bins), release=release)
        f.build_s += dt
        if ok:
            break
        bad = {}
        for d in diags:
            m = re.search(r"bins/([^/]+)/src/([^/.]+)\.rs", d.get("file") or "")
            if m and m.group(1) in bins and m.group(2) in sources:
                bad.setdefault(m.group(2), []).append(d)
        if not bad:
            raise Inconclusive(f"family {fam}: build failed without a diagnostic in a generated program: "
                               + (diags[0]["rendered"][:600] if diags else stderr[-600:]))
        refused.update(bad)
    else:
        raise Inconclusive(f"family {fam}: still failing after exclusion rounds")
    for b, progs in progs_by_bin.items():
        for p in progs:
            if p["name"] in refused:
                f.refused.append((p, refused[p["name"]]))
            else:
                f.progs.append(p)
    for p, diags in f.refused:
        ctx.violate(f"refused:{fam}:{diags[0]['message'][:80]}",
                    f"valid generated program {p['name']} ({fam}) does not compile: {diags[0]['message'][:160]}",
                    {"program": p["name"], "source": sources[p["name"]], "diagnostics": diags[:5]})
    return f


def _emit_bins(ws, bins, sv_by_bin):
    """Writes only the given bins and makes sure the workspace manifest lists every bin dir on disk."""
    bdir = os.path.join(ws.root, "bins")
    os.makedirs(bdir, exist_ok=True)
    for b, progs in bins.items():
        d = os.path.join(bdir, b)
        sv = sv_by_bin.get(b, "sylvia")
        # every other bin of a renamed dependency inherits the rename from the workspace root
        inherit = sv != "sylvia" and sum(map(ord, b)) % 2 == 1
        corpus.write_if_changed(os.path.join(d, "Cargo.toml"), corpus.bin_manifest(b, sv, inherit=inherit))
        src = os.path.join(d, "src")
        os.makedirs(src, exist_ok=True)
        keep = {"main.rs"}
        mods = []
        for pname, text in progs.items():
            corpus.write_if_changed(os.path.join(src, pname + ".rs"), text)
            keep.add(pname + ".rs")
            mods.append(pname)
        main = "".join(f"mod {m};\n" for m in mods)
        main += "fn main() {\n    svmon::server::run(vec![\n"
        main += "".join(f"        Box::new({m}::P),\n" for m in mods)
        main += "    ]);\n}\n"
        corpus.write_if_changed(os.path.join(src, "main.rs"), main)
        for fn in os.listdir(src):
            if fn not in keep:
                os.remove(os.path.join(src, fn))
    members = ["svmon"] + sorted(f"bins/{b}" for b in os.listdir(bdir)
                                 if os.path.exists(os.path.join(bdir, b, "Cargo.toml")))
    corpus.write_if_changed(os.path.join(ws.root, "Cargo.toml"),
                            "[workspace]\nresolver = \"2\"\nmembers = [" + ", ".join(f'"{m}"' for m in members) + "]\n\n"
                            "[profile.dev]\ndebug = 0\nincremental = false\nopt-level = 0\n\n"
                            "[profile.release]\ndebug = 0\nincremental = false\nopt-level = 0\n\n" + corpus.workspace_dependencies("svx"))
    lock = os.path.join(ws.root, "Cargo.lock")
    if not os.path.exists(lock):
        import shutil
        shutil.copy(os.path.join(corpus.REPO, "Cargo.lock"), lock)
    corpus.write_if_changed(os.path.join(ws.root, "svmon", "Cargo.toml"), corpus.svmon_manifest())
    corpus.write_if_changed(os.path.join(ws.root, ".cargo", "config.toml"), "[net]\noffline = true\n")


def _build(ws, pkgs, timeout=7200, release=False):
    import fcntl
    os.makedirs(os.path.dirname(ws.target), exist_ok=True)
    lockf = open(os.path.join(corpus.WORK, ws.label, ".lock"), "w")
    fcntl.flock(lockf, fcntl.LOCK_EX)
    try:
        t0 = time.time()
        # a stale binary must never be mistaken for a fresh one
        cmd = ["cargo", "build", "--offline", "--message-format=json", "--keep-going", "-q"] + (["--release"] if release else [])
        for p in pkgs:
            cmd += ["-p", p]
        p = subprocess.run(cmd, cwd=ws.root, env=dict(corpus.CARGO_ENV, CARGO_TARGET_DIR=ws.target),
                           stdout=subprocess.PIPE, stderr=subprocess.PIPE, text=True, timeout=timeout)
        diags = []
        failed_targets = set()
        for line in p.stdout.splitlines():
            try:
                m = json.loads(line)
            except ValueError:
                continue
            if m.get("reason") != "compiler-message":
                continue
            msg = m["message"]
            if msg.get("level") != "error":
                continue
            spans = [s for s in msg.get("spans", []) if s.get("is_primary")] or msg.get("spans", [])
            # follow macro expansion back to the user's file
            fname, ln = None, None
            if spans:
                s = spans[0]
                while s.get("expansion") and not re.search(r"bins/[^/]+/src/", s.get("file_name", "")):
                    s = s["expansion"]["span"]
                fname, ln = s.get("file_name"), s.get("line_start")
            tname = m.get("target", {}).get("name")
            failed_targets.add(tname)
            diags.append({"file": fname, "line": ln, "message": msg.get("message"),
                          "rendered": (msg.get("rendered") or "")[:1500], "target": tname})
        for t in failed_targets:
            try:
                os.remove(ws.bin_path(t, release=release))
            except (FileNotFoundError, TypeError):
                pass
        return p.returncode == 0, diags, p.stderr[-3000:], time.time() - t0
    finally:
        fcntl.flock(lockf, fcntl.LOCK_UN)
        lockf.close()


# ------------------------------------------------------------------ family definitions

def general_programs(ctx):
    n_per_bin = ctx.pick(4, 24)
    out = {}
    k = 0
    for b in range(corpus.NBINS):
        progs = []
        for i in range(n_per_bin):
            rng = ctx.rng("general", b, i)
            progs.append(spec.gen_program(rng, f"g{b:02d}_{i:02d}"))
            k += 1
        out[f"g{b:02d}"] = progs
    return out


_CACHE = {}


def get(ctx, fam):
    key = (id(ctx), fam)
    if key in _CACHE:
        return _CACHE[key]
    if fam == "general":
        f = build_family(ctx, fam, general_programs(ctx))
    elif fam == "release":
        # a slice of the general corpus, renamed, in the release profile
        sl = {}
        for b, progs in sorted(general_programs(ctx).items())[:ctx.pick(2, 6)]:
            import copy
            qs = []
            for p in progs[:2]:
                q = copy.deepcopy(p)
                q["types"] = p["types"]
                q["name"] = "rel_" + p["name"]
                qs.append(q)
            sl["rl" + b[1:]] = qs
        f = build_family(ctx, fam, sl, release=True)
    else:
        from . import families_extra
        f = families_extra.get(ctx, fam)
    _CACHE[key] = f
    return f
ALL_FAMILIES = ["general", "replies", "epcfg", "attrs", "generic", "alias", "names", "shadow", "wide", "release", "renamed"]
