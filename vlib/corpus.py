"""Generated cargo workspace of runner binaries, built against the repository under test."""
import fcntl
import json
import os
import re
import shutil
import subprocess
import time

VERIF = os.path.dirname(os.path.dirname(os.path.abspath(__file__)))
REPO = os.environ.get("VERIF_REPO", "/repo")
WORK = os.environ.get("VERIF_WORK", os.path.join(VERIF, "work"))
NBINS = 16

SYLVIA_FEATURES = ["mt", "stargate", "iterator", "cosmwasm_1_1", "cosmwasm_1_2", "cosmwasm_1_3", "cosmwasm_1_4"]

CARGO_ENV = dict(os.environ, CARGO_NET_OFFLINE="true", CARGO_TERM_COLOR="never")


def write_if_changed(path, content):
    os.makedirs(os.path.dirname(path), exist_ok=True)
    try:
        with open(path) as f:
            if f.read() == content:
                return False
    except FileNotFoundError:
        pass
    with open(path, "w") as f:
        f.write(content)
    return True


def svmon_manifest(sv_name="sylvia"):
    feats = ", ".join(f'"{f}"' for f in SYLVIA_FEATURES)
    return f"""[package]
name = "svmon"
version = "0.0.0"
edition = "2021"

[lib]
path = "{VERIF}/svmon/src/lib.rs"

[dependencies]
sylvia = {{ path = "{REPO}/sylvia", features = [{feats}] }}
cosmwasm-std = {{ version = "2.2.2", features = ["staking", "stargate", "iterator", "cosmwasm_1_4"] }}
cosmwasm-schema = "2.2.2"
cw-multi-test = {{ version = "2.3.2", features = ["staking", "stargate", "cosmwasm_1_4"] }}
cw-utils = "2.0.0"
schemars = "0.8.22"
serde = {{ version = "1.0.219", features = ["derive"] }}
serde_json = "1.0.140"
anyhow = "1.0.97"
"""


def workspace_dependencies(sv_name):
    """`[workspace.dependencies]` entry that renames the framework; members inherit it with `{ workspace = true }`."""
    feats = ", ".join(f'"{f}"' for f in SYLVIA_FEATURES)
    return f'[workspace.dependencies]\n{sv_name} = {{ package = "sylvia", path = "{REPO}/sylvia", features = [{feats}] }}\n'


def bin_manifest(name, sv_name="sylvia", inherit=False):
    feats = ", ".join(f'"{f}"' for f in SYLVIA_FEATURES)
    dep = f'sylvia = {{ path = "{REPO}/sylvia", features = [{feats}] }}'
    if sv_name != "sylvia" and inherit:
        # the member's own manifest never says `package = "sylvia"`
        dep = f'{sv_name} = {{ workspace = true }}'
    elif sv_name != "sylvia":
        dep = f'{sv_name} = {{ package = "sylvia", path = "{REPO}/sylvia", features = [{feats}] }}'
    return f"""[package]
name = "{name}"
version = "0.0.0"
edition = "2021"

[dependencies]
{dep}
svmon = {{ path = "../../svmon" }}
"""


class Workspace:
    """work/<label>/ws : members svmon + bins/<bin>; programs are files in a bin's src/."""

    def __init__(self, label):
        self.label = label
        self.root = os.path.join(WORK, label, "ws")
        self.target = os.path.join(WORK, label, "target")
        self.bins = {}  # bin name -> {"progs": {pname: source}, "sv": alias}
        os.makedirs(self.root, exist_ok=True)

    def add_bin(self, name, progs, sv_name="sylvia"):
        self.bins[name] = {"progs": progs, "sv": sv_name}

    def emit(self):
        members = ["svmon"] + [f"bins/{b}" for b in sorted(self.bins)]
        write_if_changed(os.path.join(self.root, "Cargo.toml"),
                         "[workspace]\nresolver = \"2\"\nmembers = [" + ", ".join(f'"{m}"' for m in members) + "]\n\n"
                         "[profile.dev]\ndebug = 0\nincremental = false\nopt-level = 0\n")
        lock = os.path.join(self.root, "Cargo.lock")
        if not os.path.exists(lock):
            shutil.copy(os.path.join(REPO, "Cargo.lock"), lock)
        write_if_changed(os.path.join(self.root, "svmon", "Cargo.toml"), svmon_manifest())
        write_if_changed(os.path.join(self.root, ".cargo", "config.toml"), "[net]\noffline = true\n")
        # remove stale bins
        bdir = os.path.join(self.root, "bins")
        if os.path.isdir(bdir):
            for d in os.listdir(bdir):
                if d not in self.bins:
                    shutil.rmtree(os.path.join(bdir, d))
        for b, info in self.bins.items():
            d = os.path.join(bdir, b)
            write_if_changed(os.path.join(d, "Cargo.toml"), bin_manifest(b, info["sv"]))
            src = os.path.join(d, "src")
            os.makedirs(src, exist_ok=True)
            keep = {"main.rs"}
            mods = []
            for pname, text in info["progs"].items():
                write_if_changed(os.path.join(src, pname + ".rs"), text)
                keep.add(pname + ".rs")
                mods.append(pname)
            main = "".join(f"mod {m};\n" for m in mods)
            main += "fn main() {\n    svmon::server::run(vec![\n"
            main += "".join(f"        Box::new({m}::P),\n" for m in mods)
            main += "    ]);\n}\n"
            write_if_changed(os.path.join(src, "main.rs"), main)
            for f in os.listdir(src):
                if f not in keep:
                    os.remove(os.path.join(src, f))

    def build(self, timeout=3600):
        """cargo build; returns (ok, diagnostics[{file, line, message, level}])"""
        os.makedirs(os.path.dirname(self.target), exist_ok=True)
        lockf = open(os.path.join(WORK, self.label, ".lock"), "w")
        fcntl.flock(lockf, fcntl.LOCK_EX)
        try:
            t0 = time.time()
            p = subprocess.run(
                ["cargo", "build", "--offline", "--message-format=json", "--keep-going", "-q"],
                cwd=self.root, env=dict(CARGO_ENV, CARGO_TARGET_DIR=self.target),
                stdout=subprocess.PIPE, stderr=subprocess.PIPE, text=True, timeout=timeout)
            diags = []
            for line in p.stdout.splitlines():
                try:
                    m = json.loads(line)
                except ValueError:
                    continue
                if m.get("reason") != "compiler-message":
                    continue
                msg = m["message"]
                if msg.get("level") not in ("error",):
                    continue
                spans = [s for s in msg.get("spans", []) if s.get("is_primary")] or msg.get("spans", [])
                f = spans[0]["file_name"] if spans else None
                ln = spans[0]["line_start"] if spans else None
                diags.append({"file": f, "line": ln, "message": msg.get("message"), "level": msg["level"],
                              "rendered": (msg.get("rendered") or "")[:2000],
                              "target": m.get("target", {}).get("name")})
            return p.returncode == 0, diags, p.stderr[-4000:], time.time() - t0
        finally:
            fcntl.flock(lockf, fcntl.LOCK_UN)
            lockf.close()

    def bin_path(self, b, release=False):
        return os.path.join(self.target, "release" if release else "debug", b)
