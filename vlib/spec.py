"""Program specs: an order-free description of one contract with its interfaces.

A spec is a plain dict (JSON-serialisable except for the `Ty` objects in `types`).  The
renderer (render.py) turns a spec into Rust; the oracles read the same spec to predict
wire documents, routing and outcomes.
"""
import random
from . import types as T

KINDS_ENUM = ["exec", "query", "sudo"]
EP_OF = {"instantiate": "instantiate", "exec": "execute", "query": "query", "sudo": "sudo",
         "migrate": "migrate", "reply": "reply"}


def _mk_args(rng, prog, n=None, dup_types=True):
    if n is None:
        n = rng.choice([0, 1, 1, 2, 2, 3, 4])
    args = []
    taken = set()
    for i in range(n):
        name = T.arg_name(rng, taken)
        taken.add(name)
        if dup_types and args and rng.random() < 0.4:
            ti = rng.choice(args)["ti"]  # same type twice: swapped arguments become observable
        else:
            ti = intern_type(prog, T.random_type(rng))
        args.append({"name": name, "ti": ti})
    return args


RESP_IDENTS = {"String": "String", "u8": "u8", "u32": "u32", "u64": "u64", "i32": "i32", "i64": "i64", "bool": "bool", "Uint128": "Uint128",
               "Addr": "Addr", "Binary": "Binary", "Coin": "Coin", "svmon::Pt": "Pt", "svmon::Shape": "Shape"}


def resp_type(rng):
    """Query response types must be path types: sylvia's return-type extraction only
    understands `Result<Path, _>` (a tuple there makes the macro panic; see DESIGN limits)."""
    for _ in range(50):
        t = T.random_type(rng)
        if t.kind != "tuple" and not getattr(t, "qself", False):
            return t
    return T.U32


def intern_type(prog, ty):
    for i, t in enumerate(prog["types"]):
        if (t.rust, t.trait_rust, t.concrete) == (ty.rust, ty.trait_rust, ty.concrete):
            return i
    prog["types"].append(ty)
    return len(prog["types"]) - 1


def _new_handler(rng, prog, part, kind, name, safe):
    h = {"kind": kind, "name": name, "safe": safe, "args": _mk_args(rng, prog),
         "ret_err": rng.choice(["own", "own", "std"]),
         "hid": f"{part['id']}.{kind}.{name}", "part": part["id"]}
    # the context type only has to convert from the entry point's tuple: a sudo handler may take MigrateCtx etc.
    alt = {"sudo": "migrate", "migrate": "sudo", "exec": "instantiate", "instantiate": "exec"}.get(kind)
    if alt and rng.random() < 0.12:
        h["ctx_kind"] = alt
    if kind == "query":
        h["resp_ti"] = intern_type(prog, resp_type(rng))
        ident = RESP_IDENTS.get(prog["types"][h["resp_ti"]].rust)
        if ident and rng.random() < 0.3:
            # explicit `resp=` with an aliased result type the macro cannot look into
            h["resp_explicit"] = ident
            if rng.random() < 0.4:
                # ... or with a literal Result<Y, _> of another type: the attribute still names the response type
                # (the handler then returns Y; the published table must say `resp`)
                other = rng.choice([t for t in (T.U64, T.STRING, T.BOOL, T.COIN, T.PT) if RESP_IDENTS.get(t.rust) != ident])
                h["resp_decl_ti"] = h["resp_ti"]
                h["resp_ti"] = intern_type(prog, other)
                h["resp_literal"] = True
    return h


def gen_program(rng, name, n_ifaces=None, customs=None, error=None, profile="general", ext_names=True):
    """Draws one valid program."""
    if customs is None:
        c = rng.random()
        customs = {"msg": c < 0.3 or 0.45 <= c < 0.55, "query": 0.3 <= c < 0.55}
    prog = {
        "name": name,
        "custom": customs,
        "error": error or rng.choice(["StdError", "MonErr", "MonErr"]),
        "types": [],
        "parts": [],
        "replies": False,
        "overrides": [],
        "generics": [],
    }
    if n_ifaces is None:
        n_ifaces = rng.choice([0, 1, 1, 2, 2, 3])
    used_wire = {k: set() for k in KINDS_ENUM}  # wire names per kind across all parts
    all_names = []  # (kind, name, safe) pool for deliberate cross-kind reuse
    pending = []    # names queued on purpose (method-name order != wire-name order pairs)

    def fresh_name(part_taken, kind):
        for _ in range(300):
            if pending and kind in KINDS_ENUM:
                nm, safe = pending.pop(0), False
            elif all_names and rng.random() < 0.35:
                k2, nm, safe = rng.choice(all_names)
                if k2 == kind:
                    continue
            elif kind in KINDS_ENUM and rng.random() < 0.04:
                # two handlers of one kind whose names differ only in where the words split (`set_up` / `setup`)
                w1, w2 = rng.sample(T.WORDS_SAFE, 2)
                nm, safe = f"{w1}_{w2}", True
                pending.append(f"{w1}{w2}")
            elif ext_names and rng.random() < 0.18:
                nm, safe = T.extended_name(rng), False
                if kind in KINDS_ENUM and rng.random() < 0.3:
                    # `w_1` sorts after `w2` as a method name but before it as a wire name
                    w = rng.choice(T.WORDS_SAFE)
                    nm = f"{w}_1"
                    pending.append(f"{w}2")
            else:
                nm, safe = T.method_name(rng)
            if nm in part_taken or nm in T.RUST_RESERVED or T.wire_name(nm) in T.RUST_RESERVED:
                continue
            # Rust method names within the part, variant identifiers within a message type and wire
            # names within a kind (across parts) must all be unique
            if T.wire_name(nm) in {T.wire_name(x) for x in part_taken}:
                continue
            if kind in used_wire and T.wire_name(nm) in used_wire[kind]:
                continue
            return nm, safe
        raise RuntimeError("names exhausted")

    # contract part
    cpart = {"id": "c", "module": None, "trait": None, "variant": "Contract", "handlers": []}
    prog["parts"].append(cpart)
    taken = set()
    nm, safe = fresh_name(taken, "instantiate")
    taken.add(nm)
    cpart["handlers"].append(_new_handler(rng, prog, cpart, "instantiate", nm, safe))
    if rng.random() < 0.6:
        nm, safe = fresh_name(taken, "migrate")
        taken.add(nm)
        cpart["handlers"].append(_new_handler(rng, prog, cpart, "migrate", nm, safe))
    for kind in KINDS_ENUM:
        for _ in range(rng.choice([0, 1, 2, 2, 3])):
            nm, safe = fresh_name(taken, kind)
            taken.add(nm)
            used_wire[kind].add(T.wire_name(nm))
            all_names.append((kind, nm, safe))
            cpart["handlers"].append(_new_handler(rng, prog, cpart, kind, nm, safe))

    # interfaces
    for i in range(n_ifaces):
        mod = f"iface{i}_" + rng.choice(["alpha", "beta", "gamma", "delta"])
        trait = T.variant_ident(mod)
        mode = rng.choice(["assoc", "empty", "fixed"])
        part = {"id": f"i{i}", "module": mod, "trait": trait, "variant": trait, "handlers": [],
                "custom_mode": mode, "error": prog["error"]}  # sylvia: the wrapper requires Iface::Error == contract error
        taken = set()
        for kind in KINDS_ENUM:
            for _ in range(rng.choice([0, 1, 1, 2])):
                nm, safe = fresh_name(taken, kind)
                taken.add(nm)
                used_wire[kind].add(T.wire_name(nm))
                all_names.append((kind, nm, safe))
                part["handlers"].append(_new_handler(rng, prog, part, kind, nm, safe))
        prog["parts"].append(part)

    # a twin handler with the signature of an existing one (wrong dispatch target observable)
    for part in prog["parts"]:
        for kind in KINDS_ENUM:
            hs = [h for h in part["handlers"] if h["kind"] == kind]
            if len(hs) >= 2 and rng.random() < 0.5:
                hs[1]["args"] = [dict(a) for a in hs[0]["args"]]
                if kind == "query":
                    hs[1]["resp_ti"] = hs[0]["resp_ti"]
                    for k in ("resp_explicit", "resp_decl_ti", "resp_literal"):
                        hs[1].pop(k, None)
                        if k in hs[0]:
                            hs[1][k] = hs[0][k]

    # a wide handler: >= 10 parameters over two types, so that any permutation of the arguments type-checks
    if rng.random() < 0.3:
        cands = [h for p_ in prog["parts"] for h in p_["handlers"] if h["kind"] in KINDS_ENUM + ["instantiate"]]
        if cands:
            h = rng.choice(cands)
            ta, tb = intern_type(prog, T.U32), intern_type(prog, rng.choice([T.U32, T.STRING]))
            n = rng.choice([10, 11, 12, 13])
            h["args"] = [{"name": f"p{i + 1}", "ti": (ta if rng.random() < 0.7 else tb)} for i in range(n)]

    # shape overlap across kinds: instantiate/migrate arg named like an enum message whose
    # body has the shape of that arg (C04)
    inst = cpart["handlers"][0]
    execs = [h for p in prog["parts"] for h in p["handlers"] if h["kind"] in KINDS_ENUM and h["args"]
             and h["name"] not in T.RUST_RESERVED]
    if execs and rng.random() < 0.4:
        h = rng.choice(execs)
        if len(h["args"]) == 2 and not inst["args"] and T.wire_name(h["name"]) == h["name"]:
            # enum body {x:u32,label:String} vs struct arg of type Pt
            h["args"] = [{"name": "x", "ti": intern_type(prog, T.U32)},
                         {"name": "label", "ti": intern_type(prog, T.STRING)}]
            inst["args"] = [{"name": h["name"], "ti": intern_type(prog, T.PT)}]
    decorate(rng, prog)
    return prog


INERT_VARIANT_ATTRS = ['schemars(rename = "Zed{n}")', 'schemars(title = "rename = other")', 'doc = "serde(rename = \\"never\\")"',
                       'cfg_attr(any(), serde(rename = "never{n}"))', 'schemars(description = "alias = \\"x\\"")',
                       # re-cases the fields of the variant by the rule they already follow; the variant's own name is not touched
                       'serde(rename_all = "snake_case")']


# doc comments and attributes that are not lists, written in front of `#[sv::msg(..)]`
FOREIGN_ABOVE = ["/// Documented handler.", "inline", "doc = \" docs above\"", "allow(unused_variables)", "/// Second line."]


def decorate(rng, prog):
    """Declaration shapes that change nothing a property speaks about: interface handlers with a default body (the contract
    still implements them), associated consts and helper methods between the handlers of the contract impl, the two
    `custom(..)` flags of sv::messages in either order, forwarded attributes that merely *look* like serde renames."""
    n = 0
    for part in prog["parts"]:
        for h in part["handlers"]:
            if part["id"] == "c" and prog["error"] == "MonErr" and h["kind"] != "reply" and h["ret_err"] == "own" and rng.random() < 0.12:
                h["ret_err"] = "lookup"
            if part["id"] != "c" and h["kind"] in KINDS_ENUM and rng.random() < 0.25:
                h["provided"] = True
            if h["kind"] in KINDS_ENUM and rng.random() < 0.12:
                n += 1
                h.setdefault("sv_attrs", []).append(rng.choice(INERT_VARIANT_ATTRS).replace("{n}", str(n)))
                if rng.random() < 0.5:
                    h["sv_attrs_above"] = len(h["sv_attrs"])
            if rng.random() < 0.12:
                h["foreign_attrs_above"] = rng.sample(FOREIGN_ABOVE, rng.choice([1, 2]))
            if h["kind"] == "query" and rng.random() < 0.12:
                # a second `returns(..)` forwarded to the variant: the derive reads the first one, the one sylvia wrote
                h.setdefault("sv_attrs", []).append("returns(svmon::Pt)")
        for h in part["handlers"]:
            # forwarded argument attributes without any effect on the wire: the argument stays where it was declared
            if h["kind"] != "reply" and len(h["args"]) >= 2 and rng.random() < 0.15:
                a = h["args"][rng.randrange(len(h["args"]) - 1)]
                if not a.get("attrs"):
                    a["attrs"] = [rng.choice(["doc = \" forwarded doc\"", "schemars(description = \"x\")", "cfg_attr(any(), serde(skip))", "cfg_attr(any(), serde(bound = \"\"))"])]
        if part["id"] != "c" and rng.random() < 0.5:
            part["custom_flags_reversed"] = True
        if part["id"] != "c" and rng.random() < 0.3:
            part["custom_flags_trailing_comma"] = True
    # parameterless queries named like methods a handle / querier type might have itself: the generated helper of that
    # name must still send the contract's own query
    for part in prog["parts"]:
        qs = [h for h in part["handlers"] if h["kind"] == "query" and not h.get("resp_explicit")]
        if qs and rng.random() < 0.12:
            h = rng.choice(qs)
            nm = rng.choice(["code_id", "contract_info", "contract_address", "balance", "address", "admin_of", "raw"])
            used_names = {x["name"] for x in part["handlers"]} | {T.wire_name(x["name"]) for p_ in prog["parts"] for x in p_["handlers"] if x["kind"] == "query"}
            if nm not in used_names:
                h["name"], h["safe"], h["args"] = nm, True, []
                h["hid"] = f"{part['id']}.query.{nm}"
    ifaces = prog["parts"][1:]
    for part in ifaces:
        # the cw1 shape: an exec handler taking messages typed with the interface's own `ExecC`
        hs = [h for h in part["handlers"] if h["kind"] == "exec" and not any(a["name"].startswith("p1") for a in h["args"])]
        if part["custom_mode"] == "assoc" and hs and rng.random() < 0.3:
            add_cosmos_msgs_arg(prog, part, rng.choice(hs))
    if len(ifaces) >= 2 and rng.random() < 0.35:
        # two interfaces whose module paths end in the same identifier (`a_ns::common`, `b_ns::common`), told apart with `as`
        same_trait = rng.random() < 0.5
        # both renamed, or only one of them (the other keeps the default variant name `Common`), in either position
        keep_default = rng.choice([None, None, 0, 1])
        for j, part in enumerate(ifaces[:2]):
            part["module"] = part["module"] + "_ns::common"
            if j == keep_default:
                part["variant"] = "Common"
            else:
                part["as_name"] = part["variant"]
            if same_trait:
                part["trait"] = "Common"   # v1::common::Common and v2::common::Common: also the generated message types share their names
    for part in ifaces:
        if part["custom_mode"] == "empty" and rng.random() < 0.35:
            # `: custom(msg)` / `custom(query)` on an interface of a contract that does not declare that custom type
            fl = [f for f in ("msg", "query") if not prog["custom"][f] and rng.random() < 0.6]
            if fl:
                part["extra_flags"] = fl
    if rng.random() < 0.4:
        k = rng.choice([1, 2, 3])
        items = []
        for i in range(k):
            items.append(rng.choice([f"pub const LIMIT_{i}: u32 = {i + 7};", f"const NAME_{i}: &'static str = \"n{i}\";",
                                     f"fn helper_{i}(&self) -> u32 {{ {i} }}", f"pub fn assoc_{i}() -> u8 {{ {i} }}"]))
        # (slot, item): slot counts handler methods of the contract impl in declaration order
        prog["impl_between"] = [(rng.randrange(0, 12), it) for it in items]


def add_cosmos_msgs_arg(prog, part, h=None):
    """The cw1 shape: an exec handler of an interface with associated custom types takes `msgs: Vec<CosmosMsg<Self::ExecC>>`."""
    if h is None:
        hs = [x for x in part["handlers"] if x["kind"] == "exec"]
        if not hs:
            return False
        h = hs[0]
    if "msgs" in {a["name"] for a in h["args"]}:
        return False
    h["args"].append({"name": "msgs", "ti": intern_type(prog, T.cosmos_msgs(prog["custom"]["msg"]))})
    part["special_params"] = {"ExecC": "MyMsg" if prog["custom"]["msg"] else "Empty"}
    return True


def add_shared_alias(rng, prog):
    """Two parts accept the same extra name (a forwarded `serde(alias)`) for one of their messages of one kind.  The name
    is in nobody's `*_messages()` table; a document under it is accepted by two parts."""
    for kind in rng.sample(KINDS_ENUM, len(KINDS_ENUM)):
        owners = [part for part in prog["parts"] if any(h["kind"] == kind for h in part["handlers"])]
        if len(owners) >= 2:
            name = f"shared_{kind}_zz"
            first = None
            for part in rng.sample(owners, 2):
                h = rng.choice([h for h in part["handlers"] if h["kind"] == kind])
                h["sv_attrs"] = list(h.get("sv_attrs", [])) + [f"serde(alias = \"{name}\")"]
                h["shared_alias"] = name
                if first is None:
                    first = h
                elif not any(getattr(prog["types"][a["ti"]], "param", None) for a in first["args"] + h["args"]):
                    # the same arguments: one body is a message of both parts
                    h["args"] = [{k: v for k, v in a.items() if k != "attrs"} for a in first["args"]]
            return name
    return None


def set_custom_mode(prog, part, mode):
    """Changes how an interface declares its custom types; arguments typed with `Self::ExecC` only exist in mode `assoc`."""
    part["custom_mode"] = mode
    if mode != "assoc" and part.get("special_params"):
        for h in part["handlers"]:
            h["args"] = [a for a in h["args"] if getattr(prog["types"][a["ti"]], "param", None) not in part["special_params"]]
        part.pop("special_params")


def handlers(prog, kind=None, part=None):
    for p in prog["parts"]:
        if part is not None and p["id"] != part:
            continue
        for h in p["handlers"]:
            if kind is None or h["kind"] == kind:
                yield h


def part_by_id(prog, pid):
    for p in prog["parts"]:
        if p["id"] == pid:
            return p
    raise KeyError(pid)


def part_customs(prog, part):
    """(has custom msg, has custom query) as seen by the part's own message dispatch."""
    if part["id"] == "c":
        return prog["custom"]["msg"], prog["custom"]["query"]
    if part["custom_mode"] == "empty":
        return False, False
    return prog["custom"]["msg"], prog["custom"]["query"]


def to_jsonable(prog):
    out = dict(prog)
    out["types"] = [t.rust for t in prog["types"]]
    return out


# ---------------------------------------------------------------- reply tables (C07-C09, C14, C18)

DATA_MODES = ["raw", "raw_opt", "typed", "opt", "instantiate", "instantiate_opt", None]
REPLY_NAMES = ["done", "failed", "both", "minted", "swap_done", "remote_instantiated", "on_transfer", "finish", "cleanup", "notify_owner",
               # names that differ only by a suffix / prefix the id constants also carry
               "swap", "swap_reply", "finish_id", "reply_done"]


def data_attr(mode):
    return {"raw": "#[sv::data(raw)]", "raw_opt": "#[sv::data(raw, opt)]", "typed": "#[sv::data]", "opt": "#[sv::data(opt)]",
            "instantiate": "#[sv::data(instantiate)]", "instantiate_opt": "#[sv::data(instantiate, opt)]"}[mode]


def gen_reply_table(rng, prog, n_names=None, force_modes=None, stage_merge=False, stage_shared=False):
    """Adds reply methods to the contract part of `prog` (valid table).  Returns the table:
    {"names": {name: {"cover": "s|e|se|a", "payload": sig}}, "methods": [...]}, sig = "raw" or [ti...]."""
    prog["replies"] = True
    cpart = prog["parts"][0]
    if n_names is None:
        n_names = rng.choice([1, 2, 2, 3, 4])
    if stage_merge:
        n_names = max(n_names, 3)
    if stage_shared:
        n_names = max(n_names, 2)
    names = rng.sample(REPLY_NAMES, n_names)
    table = {"names": {}, "methods": []}
    staged_sig = None
    for idx, nm in enumerate(names):
        cover = rng.choice(["s", "e", "se", "se", "a"])
        if stage_merge and idx < 2:
            # names[0] is served by a success and an error method, names[1] by the same error method (listed after names[0])
            cover = "se" if idx == 0 else "e"
        if stage_shared and idx < 2:
            # two names, each with a success method of its own, sharing one error method declared below both
            cover = "se"
        c = rng.random()
        if c < 0.3:
            sig = "raw"
        elif c < 0.42 and cover == "se":
            # both methods take one unmarked `Binary` payload (a JSON string on the wire, not raw bytes).  Marking only
            # one of the two `sv::payload(raw)` is an invalid program since the fix d781708 (vlib/mutants.py: reply-mixed-raw-*)
            sig = [intern_type(prog, T.BINARY)]
        elif c < 0.52:
            # one typed payload of a nested sequence / option type
            sig = [intern_type(prog, rng.choice([T.vec(T.vec(T.U32)), T.option(T.vec(T.option(T.U32))), T.vec(T.vec(T.STRING)), T.vec(T.option(T.vec(T.U32)))]))]
        else:
            sig = [intern_type(prog, T.random_type(rng)) for _ in range(rng.choice([1, 1, 2, 3]))]
            if len(sig) >= 2 and rng.random() < 0.3:
                # a 128-bit primitive among several payload values (a JSON number beyond the 64-bit range)
                sig[rng.randrange(len(sig))] = intern_type(prog, rng.choice([T.U128, T.I128, T.vec(T.U128)]))
        if (stage_merge or stage_shared) and idx == 0:
            staged_sig = sig
        if (stage_merge or stage_shared) and idx == 1:
            sig = staged_sig
        table["names"][nm] = {"cover": cover, "payload": sig}
    # methods: group names with the same payload signature under shared methods sometimes
    method_names_taken = {h["name"] for h in cpart["handlers"]}
    mcount = 0
    modes = list(force_modes or [])

    def new_method(outcome, served, sig):
        nonlocal mcount
        mcount += 1
        # default naming: method named like the single handler it serves, no `handlers=`
        explicit = True
        mname = None
        if len(served) == 1 and served[0] not in method_names_taken and rng.random() < 0.5:
            mname, explicit = served[0], False
        if mname is None:
            mname = f"on_{outcome}_{mcount}"
        method_names_taken.add(mname)
        m = {"kind": "reply", "name": mname, "safe": True, "hid": f"c.reply.{mname}", "part": "c",
             "handlers": list(served) if explicit else None, "serves": list(served),
             "reply_on": outcome, "payload": sig, "data": None, "ret_err": "own", "args": []}  # dispatch_reply returns the method result unconverted
        if explicit and len(served) >= 2 and rng.random() < 0.4:
            m["handlers_split"] = rng.randrange(1, len(served))
        if rng.random() < 0.3:
            m["reply_on_first"] = True
        if rng.random() < 0.15:
            m["foreign_attrs_above"] = rng.sample(FOREIGN_ABOVE, rng.choice([1, 2]))
        if outcome == "success":
            m["data"] = modes.pop(0) if modes else rng.choice(DATA_MODES)
            if rng.random() < 0.3:
                # other attributes in front of the data marker do not change the mode
                m["data_attr_prefix"] = rng.choice(["#[allow(unused_variables)] ", "#[doc = \"the data\"] ", "#[cfg_attr(any(), deprecated)] "])
            if m["data"] in ("typed", "opt"):
                m["data_ti"] = intern_type(prog, rng.choice([T.STRING, T.U64, T.PT, T.SHAPE, T.vec(T.U32), T.COIN, T.UINT128, T.BOOL,
                                                              T.option(T.U32), T.option(T.STRING)]))
        pnames = ["payload"] if sig == "raw" else [f"p{i + 1}" for i in range(len(sig))]
        if sig != "raw" and rng.random() < 0.3:
            # names that coincide with fields / locals of the generated builders
            special = rng.sample(["id", "reply_on", "msg", "gas_limit", "payload"], min(len(sig), 4))
            if rng.random() < 0.5:
                special[0] = "contract"   # the name of dispatch_reply's own argument
            pnames = special + pnames[len(special):]
        m["payload_names"] = pnames
        table["methods"].append(m)
        return m

    by_sig = {}
    for nm, info in table["names"].items():
        key = "raw" if info["payload"] == "raw" else tuple(info["payload"])
        by_sig.setdefault(key, []).append(nm)
    for key, nms in by_sig.items():
        sig = "raw" if key == "raw" else list(key)
        for outcome, letter in (("success", "s"), ("error", "e"), ("always", "a")):
            want = [n for n in nms if letter in table["names"][n]["cover"]]
            rng.shuffle(want)
            if stage_merge and letter == "e" and names[0] in want and names[1] in want:
                want = [names[0], names[1]] + [n for n in want if n not in names[:2]]
                new_method(outcome, want[:2], sig)
                want = want[2:]
            if stage_shared and names[0] in want and names[1] in want:
                # "error": one error method below two success methods; "success": one success method above two error methods
                shared_letter = "e" if stage_shared != "success" else "s"
                if stage_shared == "both":
                    # one success and one error method, each serving both names
                    new_method(outcome, [names[0], names[1]], sig)
                elif letter != shared_letter:
                    new_method(outcome, [names[0]], sig)
                    new_method(outcome, [names[1]], sig)
                else:
                    new_method(outcome, [names[0], names[1]], sig)
                want = [n for n in want if n not in names[:2]]
            while want:
                k = rng.choice([1, 1, 2, len(want)])
                served, want = want[:k], want[k:]
                new_method(outcome, served, sig)
    rng.shuffle(table["methods"])
    _stage_merged_then_new(rng, table["methods"], always=stage_merge)
    if stage_shared:
        which = "success" if stage_shared == "success" else "error"
        shared = [m for m in table["methods"] if m["reply_on"] == which and set(names[:2]) <= set(m["serves"])]
        rest = [m for m in table["methods"] if m not in shared]
        table["methods"][:] = (shared + rest) if which == "success" else (rest + shared)
    cpart["handlers"] += table["methods"]
    prog["reply_table"] = table
    return table


def _stage_merged_then_new(rng, ms, always=False):
    """When possible, declares first a method that introduces name X, then a method whose `handlers=[X, Y, ..]` list names the
    already known X *before* the new name Y, and only later the methods of further names (id numbering must not skip or reuse)."""
    for m2 in ms:
        if not m2.get("handlers") or len(m2["handlers"]) < 2:
            continue
        for m1 in ms:
            if m1 is m2:
                continue
            common = [x for x in m2["handlers"] if x in m1["serves"]]
            fresh = [y for y in m2["handlers"] if y not in m1["serves"]]
            later = [m for m in ms if m is not m1 and m is not m2 and any(z not in m1["serves"] and z not in m2["serves"] for z in m["serves"])]
            if common and fresh and later and (always or rng.random() < 0.6):
                m2["handlers"] = common + fresh
                m2["serves"] = list(m2["handlers"])
                m2.pop("handlers_split", None)
                rest = [m for m in ms if m is not m1 and m is not m2]
                ms[:] = [m1, m2] + rest
                return


def reply_method_for(table, name, ok):
    """The method that must run for (name, outcome) or None."""
    want = ("success", "always") if ok else ("error", "always")
    for m in table["methods"]:
        if name in m["serves"] and m["reply_on"] in want:
            return m
    return None


def expected_reply_on(table, name):
    c = table["names"][name]["cover"]
    return {"s": "success", "e": "error", "se": "always", "a": "always"}[c]


# ---------------------------------------------------------------- entry-point configurations (C06)

ALL_EP_KINDS = ["instantiate", "exec", "query", "sudo", "migrate", "reply"]


def gen_ep_config_program(rng, name, overrides, migrate, reply, replies_feature):
    """A program with a given entry-point configuration.
    reply: None | "legacy" | "table"; replies_feature only matters with reply handlers."""
    for _ in range(50):
        p = gen_program(rng, name, n_ifaces=rng.choice([0, 1]))
        has_m = any(h["kind"] == "migrate" for h in p["parts"][0]["handlers"])
        if has_m == migrate:
            break
    else:
        c = p["parts"][0]
        if migrate:
            c["handlers"].append(_new_handler(rng, p, c, "migrate", "migrate_v9", False))
            if sum(ord(ch) for ch in name) % 2 == 0:
                c["handlers"][-1]["foreign_attrs_above"] = ["/// The migration.", "inline"]
        else:
            c["handlers"] = [h for h in c["handlers"] if h["kind"] != "migrate"]
    if reply == "table":
        tb = gen_reply_table(rng, p)
        if sum(ord(ch) for ch in name) % 2 == 0:
            # every reply method names its handlers explicitly (no method is called like the handler it serves)
            for m in tb["methods"]:
                m["handlers"] = list(m["serves"])
    elif reply == "legacy":
        # an associated const in front of the methods: positions among the impl's *items* are not positions among its methods
        p["impl_between"] = list(p.get("impl_between", [])) + [(0, "pub const REPLY_SLOT: u64 = 1;")]
        rn = rng.choice(["reply", "on_reply", "handle_reply"])
        p["parts"][0]["handlers"].append({"kind": "reply", "name": rn, "safe": True, "hid": f"c.reply.{rn}", "part": "c",
                                          "legacy": True, "args": [], "ret_err": rng.choice(["own", "std"])})
        if sum(ord(ch) for ch in name) % 2 == 1:
            p["parts"][0]["handlers"][-1]["foreign_attrs_above"] = ["/// The reply handler.", "inline"]
    if reply in ("table", "legacy") and rng.random() < 0.6:
        # reply methods anywhere among the other handlers, e.g. before the migrate handler
        rng.shuffle(p["parts"][0]["handlers"])
    if reply in ("table", "legacy") and migrate and sum(ord(ch) for ch in name) % 3 != 1:
        # a reply method written before the migrate handler (two configurations out of three, whatever the shuffle did)
        hs = p["parts"][0]["handlers"]
        mig = [h for h in hs if h["kind"] == "migrate"]
        hs[:] = [h for h in hs if h["kind"] != "migrate"] + mig
    if reply == "feature-only":
        # `sv::features(replies)` switched on, but no reply method declared: there is nothing to emit a reply entry point for
        p["replies"] = True
    p["overrides"] = [{"kind": k, "fn": f"ov_{k}", "msg": ("Reply" if k == "reply" else "svmon::OvMsg")} for k in overrides]
    # the kind of an override is what the attribute says: neither the name of the user's function (which may be the name of
    # another entry point) nor the name of its message type (which may be that of a message generated for another kind)
    sib = {"migrate": "sudo", "sudo": "migrate", "exec": "instantiate", "instantiate": "exec"}
    gen_of_sib = {"migrate": "ContractSudoMsg", "sudo": "MigrateMsg", "exec": "InstantiateMsg", "instantiate": "ContractExecMsg", "query": "ContractQueryMsg"}
    taken = set()
    for ov in p["overrides"]:
        k = ov["kind"]
        c = rng.random()
        cand = EP_OF[sib[k]] if (k in sib and c < 0.3) else (EP_OF[k] if c < 0.45 else ov["fn"])
        if cand not in taken:
            ov["fn"] = cand
        taken.add(ov["fn"])
        if k in gen_of_sib and rng.random() < 0.3:
            ov["msg"] = "ovnames::" + gen_of_sib[k]
    if any(ov["msg"].startswith("ovnames::") for ov in p["overrides"]):
        p["pre_items"] = list(p.get("pre_items", [])) + [
            "pub mod ovnames { " + " ".join(f"pub type {n} = svmon::OvMsg;" for n in sorted(set(gen_of_sib.values()))) + " }"]
    p["ep_config"] = {"overrides": list(overrides), "migrate": migrate, "reply": reply}
    return p


# ---------------------------------------------------------------- generics (C15)

def used_params(prog, part, kind):
    """Generic parameters (contract) / associated types (interface) that occur in the arguments
    (and, for queries, the response types) of the part's handlers of `kind`; order of first occurrence."""
    if part["id"] == "c":
        domain = [g["name"] for g in prog.get("generics") or []]
    else:
        domain = [n for n, _ in part.get("assoc", [])] + list(part.get("special_params", {}))
    out = []
    for h in part["handlers"]:
        if h["kind"] != kind:
            continue
        tis = [a["ti"] for a in h["args"]]
        if kind == "query":
            tis.append(h["resp_ti"])
        for ti in tis:
            for n in T.params_in(prog["types"][ti]):
                if n in domain and n not in out:
                    out.append(n)
    return out


GENERIC_NAMES = ["T1", "ExecT", "QueryT", "ParamT", "RespT", "FieldT", "ItemT", "T2"]
ASSOC_NAMES = ["ParamA", "RespB", "ItemC", "KeyD"]
GENERIC_CONCRETE = [T.U32, T.STRING, T.UINT128, T.PT, T.SHAPE, T.BOOL, T.COIN, T.I64, T.BINARY]


def _wrap_param(rng, base):
    c = rng.random()
    if c < 0.08 and base.kind == "generic":
        return T.qualified(base)
    if c < 0.5:
        return base
    if c < 0.65:
        return T.option(base)
    if c < 0.8:
        return T.vec(base)
    if c < 0.9:
        return T.tup(base, rng.choice([T.U32, T.STRING]))
    return T.btmap(base)


def gen_generic_program(rng, name, n_generics=None, n_ifaces=None, iface_assoc=True, generic_error=False):
    """A generic contract (type parameters used directly / nested / only in a query response / not at all)
    with interfaces that may carry associated types."""
    p = gen_program(rng, name, n_ifaces=rng.choice([0, 1, 2]) if n_ifaces is None else n_ifaces)
    ng = rng.choice([1, 2, 3, 4]) if n_generics is None else n_generics
    names = rng.sample(GENERIC_NAMES, ng)
    concs = rng.sample(GENERIC_CONCRETE, ng)
    p["generics"] = [{"name": n, "concrete": c.concrete} for n, c in zip(names, concs)]
    for g in p["generics"]:
        if rng.random() < 0.3:
            # the same bound written out, with its higher-ranked lifetime: `T: Serialize + for<'de> Deserialize<'de> + ..`
            g["hrtb"] = True
    if rng.random() < 0.3:
        p["lifetime"] = "'a"
    gp = {n: T.generic_param(n, c) for n, c in zip(names, concs)}
    c = p["parts"][0]
    unused = set(rng.sample(names, rng.choice([0, 0, 1]))) if ng > 1 else set()
    resp_only = set()
    cand = [n for n in names if n not in unused]
    if len(cand) > 1 and rng.random() < 0.5:
        resp_only = {rng.choice(cand)}
    for h in c["handlers"]:
        if h["kind"] == "reply":
            continue
        for a in h["args"]:
            usable = [n for n in names if n not in unused and n not in resp_only]
            if usable and rng.random() < 0.45:
                a["ti"] = intern_type(p, _wrap_param(rng, gp[rng.choice(usable)]))
        if h["kind"] == "query":
            usable = [n for n in names if n not in unused]
            if usable and rng.random() < 0.5:
                n = rng.choice(sorted(resp_only) or usable)
                t = _wrap_param(rng, gp[n])
                if t.kind != "tuple" and not getattr(t, "qself", False):
                    h["resp_ti"] = intern_type(p, t)
                    [h.pop(k_, None) for k_ in ("resp_explicit", "resp_decl_ti", "resp_literal")]
    # make sure a resp_only parameter really is used by some query
    for n in resp_only:
        qs = [h for h in c["handlers"] if h["kind"] == "query"]
        if not qs:
            nm = "get_" + n.lower()
            qs = [_new_handler(rng, p, c, "query", nm, False)]
            c["handlers"].append(qs[0])
        qs[0]["resp_ti"] = intern_type(p, gp[n])
        [qs[0].pop(k_, None) for k_ in ("resp_explicit", "resp_decl_ti", "resp_literal")]
        if rng.random() < 0.5:
            qs[0]["resp_explicit"] = n   # `resp=<parameter>` with an aliased result: still a use of the parameter
    # A bound relating two parameters: the (single) predicate of `a` mentions `b`, so a message type that
    # uses `a` but not `b` must drop it.  sylvia accepts one `Ident: Bounds` predicate per parameter (it
    # derives helper-trait items from them), and the instantiate builder needs `a: Serialize` from that
    # predicate; so `a` may not occur in instantiate without `b` (DESIGN limits).  To make the filter
    # matter, a migrate handler takes `a` and not `b`.
    if ng >= 2 and rng.random() < 0.7:
        a, b = rng.sample(names, 2)
        inst_used = used_params(p, c, "instantiate")
        if not (a in inst_used and b not in inst_used):
            next(g for g in p["generics"] if g["name"] == a)["extra_bound"] = f"svmon::Rel<{b}>"
            mig = [h for h in c["handlers"] if h["kind"] == "migrate"]
            if not mig:
                mig = [_new_handler(rng, p, c, "migrate", "migrate_to_v2", False)]
                c["handlers"].append(mig[0])
            mig[0]["args"] = [x for x in mig[0]["args"] if b not in T.params_in(p["types"][x["ti"]])]
            mig[0]["args"].append({"name": "rel_arg", "ti": intern_type(p, _wrap_param(rng, gp[a]))})
    # interfaces with associated types
    for part in p["parts"][1:]:
        if not iface_assoc or rng.random() < 0.3:
            continue
        na = rng.choice([1, 2])
        an = rng.sample(ASSOC_NAMES, na)
        part["assoc"], part["assoc_concrete"] = [], []
        at = {}
        for nme in an:
            if names and rng.random() < 0.4:
                g = gp[rng.choice(names)]
                bound_rust, conc, base = g.rust, g.concrete, g
            else:
                base = rng.choice(GENERIC_CONCRETE)
                bound_rust, conc = base.rust, base.concrete
            part["assoc"].append((nme, bound_rust))
            part["assoc_concrete"].append((nme, conc))
            t = T.assoc_type(nme, base)
            at[nme] = t
        for h in part["handlers"]:
            for a in h["args"]:
                if rng.random() < 0.5:
                    a["ti"] = intern_type(p, _wrap_param(rng, at[rng.choice(an)]))
            if h["kind"] == "query" and rng.random() < 0.5:
                t = _wrap_param(rng, at[rng.choice(an)])
                if t.kind != "tuple" and not getattr(t, "qself", False):
                    h["resp_ti"] = intern_type(p, t)
                    [h.pop(k_, None) for k_ in ("resp_explicit", "resp_decl_ti", "resp_literal")]
    # a concrete type whose *path ends in* the name of a parameter (svmon::named::ExecT) is not a use of that parameter
    def named(nme):
        return T.Ty(f"svmon::named::{nme}", lambda r, d: {"v": r.randrange(1000)}, "struct")
    for part in p["parts"]:
        domain = names if part["id"] == "c" else [n for n, _ in part.get("assoc", [])]
        if not domain or rng.random() < 0.5:
            continue
        nme = rng.choice(domain)
        hs = [h for h in part["handlers"] if h["kind"] != "reply"]
        if hs:
            h = rng.choice(hs)
            taken = {a["name"] for a in h["args"]}
            if "tagged" not in taken:
                h["args"].append({"name": "tagged", "ti": intern_type(p, rng.choice([named(nme), T.option(named(nme)), T.vec(named(nme))]))})
                if h["kind"] == "query" and rng.random() < 0.3 and not h.get("resp_explicit"):
                    h["resp_ti"] = intern_type(p, named(nme))
    if generic_error:
        # the contract's error type is a type parameter: it occurs in every handler's result type, in no argument
        # and in no response type, so no message type carries it
        p["generics"].append({"name": "ErrT", "concrete": p["error"], "bound": "svmon::ErrParam"})
        p["error"] = "ErrT"
        for part in p["parts"][1:]:
            part["error"] = "ErrT"
        for h in handlers(p):
            h["ret_err"] = "own" if (rng.random() < 0.8 or h["ret_err"] == "lookup") else h["ret_err"]
    return p
