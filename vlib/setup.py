"""Warm-up: build the families used by the quick tier."""
import os
import sys

from .framework import Ctx


def main():
    seed = int(os.environ.get("VERIF_SEED", "0") or 0)
    ctx = Ctx("SETUP", "quick", seed)
    from . import families
    for fam in families.ALL_FAMILIES:
        try:
            f = ctx.family(fam)
            print(f"setup: family {fam}: {len(f.progs)} programs, build {f.build_s:.0f}s")
        except Exception as e:  # setup must never fail the run; checks rebuild anyway
            print(f"setup: family {fam}: {type(e).__name__}: {e}")


if __name__ == "__main__":
    main()
