"""Families other than the general corpus."""
from . import spec, corpus
from .families import build_family


def reply_programs(ctx):
    n_per_bin = ctx.pick(3, 12)
    nb = ctx.pick(8, 16)
    out = {}
    k = 0
    for b in range(nb):
        progs = []
        for i in range(n_per_bin):
            rng = ctx.rng("replies", b, i)
            p = spec.gen_program(rng, f"r{b:02d}_{i:02d}", n_ifaces=rng.choice([0, 0, 1]))
            # every data mode appears: rotate forced modes through the corpus
            modes = [spec.DATA_MODES[(k + j) % len(spec.DATA_MODES)] for j in range(3)]
            spec.gen_reply_table(rng, p, force_modes=modes)
            progs.append(p)
            k += 1
        out[f"r{b:02d}"] = progs
    return out


def get(ctx, fam):
    if fam == "replies":
        return build_family(ctx, fam, reply_programs(ctx))
    raise KeyError(fam)
