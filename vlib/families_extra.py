"""Families other than the general corpus."""
from . import spec, corpus
from .families import build_family


def reply_programs(ctx):
    n_per_bin = ctx.pick(3, 12)
    nb = ctx.pick(8, 16)
    out = {}
    k = 0
    for b in range(nb):
        progs = []
        for i in range(n_per_bin):
            rng = ctx.rng("replies", b, i)
            p = spec.gen_program(rng, f"r{b:02d}_{i:02d}", n_ifaces=rng.choice([0, 0, 1]))
            # every data mode appears: rotate forced modes through the corpus
            modes = [spec.DATA_MODES[(k + j) % len(spec.DATA_MODES)] for j in range(3)]
            spec.gen_reply_table(rng, p, force_modes=modes)
            progs.append(p)
            k += 1
        out[f"r{b:02d}"] = progs
    return out


def ep_programs(ctx):
    """Entry-point configurations: override subsets x migrate x reply handler kind."""
    import itertools
    kinds = spec.ALL_EP_KINDS
    subsets = [c for n in range(len(kinds) + 1) for c in itertools.combinations(kinds, n)]
    rng0 = ctx.rng("epcfg")
    if ctx.quick:
        # every single-kind override, the empty and the full set, plus random subsets
        chosen = [()] + [(k,) for k in kinds] + [tuple(kinds)] + rng0.sample(subsets, 8)
    else:
        chosen = subsets
    out = {}
    nb = ctx.pick(4, 16)
    for i, ov in enumerate(chosen):
        rng = ctx.rng("epcfg", i)
        migrate = bool(i % 2) if ctx.quick else rng.random() < 0.5
        reply = [None, "legacy", "table"][i % 3]
        if "reply" in ov and reply is None and rng.random() < 0.5:
            reply = "table"
        p = spec.gen_ep_config_program(rng, f"e{i:03d}", ov, migrate, reply, True)
        out.setdefault(f"e{i % nb:02d}", []).append(p)
    return out


def get(ctx, fam):
    if fam == "epcfg":
        return build_family(ctx, fam, ep_programs(ctx))
    if fam == "replies":
        return build_family(ctx, fam, reply_programs(ctx))
    raise KeyError(fam)
