"""Families other than the general corpus."""
from . import spec, corpus
from .families import build_family


def reply_programs(ctx):
    n_per_bin = ctx.pick(3, 12)
    nb = ctx.pick(8, 16)
    out = {}
    k = 0
    for b in range(nb):
        progs = []
        for i in range(n_per_bin):
            rng = ctx.rng("replies", b, i)
            p = spec.gen_program(rng, f"r{b:02d}_{i:02d}", n_ifaces=rng.choice([0, 0, 1]))
            # every data mode appears: rotate forced modes through the corpus
            modes = [spec.DATA_MODES[(k + j) % len(spec.DATA_MODES)] for j in range(3)]
            spec.gen_reply_table(rng, p, force_modes=modes)
            progs.append(p)
            k += 1
        out[f"r{b:02d}"] = progs
    return out


def ep_programs(ctx):
    """Entry-point configurations: override subsets x migrate x reply handler kind."""
    import itertools
    kinds = spec.ALL_EP_KINDS
    subsets = [c for n in range(len(kinds) + 1) for c in itertools.combinations(kinds, n)]
    rng0 = ctx.rng("epcfg")
    if ctx.quick:
        # every single-kind override, the empty and the full set, plus random subsets
        chosen = [()] + [(k,) for k in kinds] + [tuple(kinds)] + rng0.sample(subsets, 8)
    else:
        chosen = subsets
    out = {}
    nb = ctx.pick(4, 16)
    for i, ov in enumerate(chosen):
        rng = ctx.rng("epcfg", i)
        migrate = bool(i % 2) if ctx.quick else rng.random() < 0.5
        reply = [None, "legacy", "table"][i % 3]
        if "reply" in ov and reply is None and rng.random() < 0.5:
            reply = "table"
        p = spec.gen_ep_config_program(rng, f"e{i:03d}", ov, migrate, reply, True)
        out.setdefault(f"e{i % nb:02d}", []).append(p)
    return out


def generic_programs(ctx):
    n_per_bin = ctx.pick(2, 8)
    nb = ctx.pick(6, 16)
    out = {}
    for b in range(nb):
        progs = []
        for i in range(n_per_bin):
            rng = ctx.rng("generic", b, i)
            progs.append(spec.gen_generic_program(rng, f"x{b:02d}_{i:02d}"))
        out[f"x{b:02d}"] = progs
    return out


def get(ctx, fam):
    if fam == "generic":
        return build_family(ctx, fam, generic_programs(ctx))
    if fam == "attrs":
        return build_family(ctx, fam, attr_programs(ctx))
    if fam == "epcfg":
        return build_family(ctx, fam, ep_programs(ctx))
    if fam == "replies":
        return build_family(ctx, fam, reply_programs(ctx))
    raise KeyError(fam)


# ---------------------------------------------------------------- C17: forwarded attributes with an effect

DEFAULTABLE = {"bool", "uint", "int", "string", "uint128", "binary", "option", "vec", "map"}


def attr_programs(ctx):
    n_per_bin = ctx.pick(3, 12)
    nb = ctx.pick(4, 16)
    out = {}
    for b in range(nb):
        progs = []
        for i in range(n_per_bin):
            rng = ctx.rng("attrs", b, i)
            p = spec.gen_program(rng, f"a{b:02d}_{i:02d}", n_ifaces=rng.choice([1, 2]))
            place_effect_attrs(rng, p)
            progs.append(p)
        out[f"a{b:02d}"] = progs
    return out


def place_effect_attrs(rng, p):
    """serde attributes with an observable effect, at random places of all three forwarding routes."""
    eff = {"deny": [], "alias": [], "default": []}
    for part in p["parts"]:
        kinds = ["instantiate", "migrate", "exec", "query", "sudo"] if part["id"] == "c" else ["exec", "query", "sudo"]
        part["msg_attrs"] = []
        for k in kinds:
            if not any(h["kind"] == k for h in part["handlers"]):
                continue
            if rng.random() < 0.35:
                part["msg_attrs"].append((k, "serde(deny_unknown_fields)"))
                eff["deny"].append((part["id"], k))
        for h in part["handlers"]:
            if h["kind"] in ("exec", "query", "sudo") and rng.random() < 0.35:
                alias = "alias_" + h["hid"].replace(".", "_") + "_zz"
                h["sv_attrs"] = [f"serde(alias = \"{alias}\")"]
                eff["alias"].append((h["hid"], alias))
            for a in h["args"]:
                ty = p["types"][a["ti"]]
                if ty.kind in DEFAULTABLE and all(s.kind in DEFAULTABLE or True for s in ty.sub) and rng.random() < 0.4:
                    a["attrs"] = ["serde(default)"]
                    eff["default"].append((h["hid"], a["name"]))
    p["attr_effects"] = eff
    return p
