"""Families other than the general corpus."""
from . import spec, corpus
from .families import build_family


def reply_programs(ctx):
    n_per_bin = ctx.pick(3, 12)
    nb = ctx.pick(8, 16)
    out = {}
    k = 0
    for b in range(nb):
        progs = []
        for i in range(n_per_bin):
            rng = ctx.rng("replies", b, i)
            p = spec.gen_program(rng, f"r{b:02d}_{i:02d}", n_ifaces=rng.choice([0, 0, 1]))
            # every data mode appears: rotate forced modes through the corpus
            modes = [spec.DATA_MODES[(k + j) % len(spec.DATA_MODES)] for j in range(3)]
            # every fourth table stages "known name before new name" in one handlers list, declared before further names
            # (and every eighth contract has a single reply handler name: its id is the only known one)
            spec.gen_reply_table(rng, p, n_names=(1 if k % 8 == 6 else None), force_modes=modes, stage_merge=(k % 4 == 1),
                                 stage_shared=({3: "error", 7: "success", 5: "both"}.get(k % 8, False)))
            progs.append(p)
            k += 1
        out[f"r{b:02d}"] = progs
    return out


def ep_programs(ctx):
    """Entry-point configurations: override subsets x migrate x reply handler kind."""
    import itertools
    kinds = spec.ALL_EP_KINDS
    subsets = [c for n in range(len(kinds) + 1) for c in itertools.combinations(kinds, n)]
    rng0 = ctx.rng("epcfg")
    if ctx.quick:
        # every single-kind override, the empty and the full set, plus random subsets
        chosen = [()] + [(k,) for k in kinds] + [tuple(kinds)] + rng0.sample(subsets, 8)
    else:
        chosen = subsets
    out = {}
    nb = ctx.pick(4, 16)
    for i, ov in enumerate(chosen):
        rng = ctx.rng("epcfg", i)
        migrate = bool(i % 2) if ctx.quick else rng.random() < 0.5
        reply = [None, "legacy", "table", "feature-only"][i % 4]
        if "reply" in ov and reply is None and rng.random() < 0.5:
            reply = "table"
        p = spec.gen_ep_config_program(rng, f"e{i:03d}", ov, migrate, reply, True)
        out.setdefault(f"e{i % nb:02d}", []).append(p)
    return out


def generic_programs(ctx):
    n_per_bin = ctx.pick(2, 8)
    nb = ctx.pick(6, 16)
    out = {}
    for b in range(nb):
        progs = []
        for i in range(n_per_bin):
            rng = ctx.rng("generic", b, i)
            progs.append(spec.gen_generic_program(rng, f"x{b:02d}_{i:02d}"))
        out[f"x{b:02d}"] = progs
    return out


NOFEAT_VARIANTS = {
    # bin name -> (default-features, features, CosmosMsg kinds that exist in that build)
    "nf_default": (True, [], ["bank", "wasm_exec", "wasm_inst", "staking", "distribution", "custom"]),
    "nf_none": (False, [], ["bank", "wasm_exec", "wasm_inst", "custom"]),
    "nf_stargate": (False, ["stargate"], ["bank", "wasm_exec", "wasm_inst", "ibc", "gov", "stargate", "custom"]),
    "nf_stargate_2_0": (False, ["stargate", "cosmwasm_2_0"], ["bank", "wasm_exec", "wasm_inst", "ibc", "gov", "stargate", "any", "custom"]),
    "nf_all_2_0": (True, ["stargate", "cosmwasm_2_0"], ["bank", "wasm_exec", "staking", "distribution", "ibc", "gov", "stargate", "any", "custom"]),
}


def nofeat_bins(ctx):
    """Stand-alone runners linked against sylvia built with other feature sets than the main corpus
    (each in its own cargo invocation so that features are not unified with the other packages)."""
    import os
    from .families import _build, _emit_bins
    ws = corpus.Workspace(ctx.label)
    _emit_bins(ws, {}, {})
    out = {}
    for b, (dflt, feats, kinds) in NOFEAT_VARIANTS.items():
        d = os.path.join(ws.root, "bins", b)
        fl = ", ".join(f'"{f}"' for f in feats)
        corpus.write_if_changed(os.path.join(d, "Cargo.toml"),
                                f'[package]\nname = "{b}"\nversion = "0.0.0"\nedition = "2021"\n\n[[bin]]\nname = "{b}"\npath = "{corpus.VERIF}/svmon/nf_main.rs"\n\n'
                                f'[dependencies]\nsylvia = {{ path = "{corpus.REPO}/sylvia", default-features = {"true" if dflt else "false"}, features = [{fl}] }}\n')
        _emit_bins(ws, {}, {})
        ok, diags, stderr, dt = _build(ws, [b])
        if not ok:
            ctx.violate(f"feature-build:{b}", f"sylvia does not build with default-features={dflt} features={feats}: {(diags[0]['message'] if diags else stderr[-200:])[:160]}",
                        {"bin": b, "diagnostics": diags[:3]})
            continue
        out[b] = (ws.bin_path(b), kinds)
    return out


def get(ctx, fam):
    if fam == "alias":
        byb = alias_programs(ctx)
        return build_family(ctx, fam, byb, sv_by_bin={b: ALIAS for b in byb})
    if fam == "names":
        return build_family(ctx, fam, name_programs(ctx))
    if fam == "shadow":
        return build_family(ctx, fam, shadow_programs(ctx))
    if fam == "wide":
        return build_family(ctx, fam, wide_programs(ctx))
    if fam == "generic":
        return build_family(ctx, fam, generic_programs(ctx))
    if fam == "attrs":
        return build_family(ctx, fam, attr_programs(ctx))
    if fam == "epcfg":
        return build_family(ctx, fam, ep_programs(ctx))
    if fam == "replies":
        return build_family(ctx, fam, reply_programs(ctx))
    if fam == "renamed":
        return build_family(ctx, fam, renamed_programs(ctx))
    raise KeyError(fam)


def renamed_programs(ctx):
    """Programs whose exec / query messages get another wire name through a forwarded `serde(rename = "..")` (with and
    without arguments).  Only checks that never predict a wire name run on them (C10: helper -> target entry point)."""
    out = {}
    n = ctx.pick(4, 24)
    for i in range(n):
        rng = ctx.rng("renamed", i)
        p = spec.gen_program(rng, f"rn{i:02d}", n_ifaces=rng.choice([1, 2]))
        k = 0
        for part in p["parts"]:
            hs = [h for h in part["handlers"] if h["kind"] in ("exec", "query") and h["safe"]]
            for j, h in enumerate(hs):
                if j == 0 and h["args"] and rng.random() < 0.7:
                    h["args"] = []   # at least some renamed messages without arguments
                if rng.random() < 0.7 or j == 0:
                    k += 1
                    h["sv_attrs"] = [a for a in h.get("sv_attrs", []) if "rename" not in a] + [f'serde(rename = "renamed{k}X")']
        out.setdefault(f"rn{i % ctx.pick(2, 6):02d}", []).append(p)
    return out


# ---------------------------------------------------------------- C17: forwarded attributes with an effect

DEFAULTABLE = {"bool", "uint", "int", "string", "uint128", "binary", "option", "vec", "map"}


def attr_programs(ctx):
    n_per_bin = ctx.pick(3, 12)
    nb = ctx.pick(4, 16)
    out = {}
    for b in range(nb):
        progs = []
        for i in range(n_per_bin):
            rng = ctx.rng("attrs", b, i)
            p = spec.gen_program(rng, f"a{b:02d}_{i:02d}", n_ifaces=rng.choice([1, 2]))
            place_effect_attrs(rng, p)
            progs.append(p)
        out[f"a{b:02d}"] = progs
    return out


def place_effect_attrs(rng, p):
    """serde attributes with an observable effect, at random places of all three forwarding routes."""
    eff = {"deny": [], "alias": [], "default": [], "upper": []}
    for part in p["parts"]:
        for h in part["handlers"]:
            # a variant-level `rename_all` wins over the container's `rename_all_fields`: not inert next to the `upper` effect
            if h.get("sv_attrs"):
                h["sv_attrs"] = [a for a in h["sv_attrs"] if "rename_all" not in a]
    if rng.random() < 0.4:
        # (before any argument attribute is placed: the two handlers end up with the same arguments)
        spec.add_shared_alias(rng, p)
    for part in p["parts"]:
        kinds = ["instantiate", "migrate", "exec", "query", "sudo"] if part["id"] == "c" else ["exec", "query", "sudo"]
        part["msg_attrs"] = []
        for k in kinds:
            if not any(h["kind"] == k for h in part["handlers"]):
                continue
            if rng.random() < 0.35:
                part["msg_attrs"].append((k, "serde(deny_unknown_fields)"))
                eff["deny"].append((part["id"], k))
            if k in ("exec", "query", "sudo") and rng.random() < 0.25:
                # changes the keys of the arguments, not the names of the messages
                part["msg_attrs"].append((k, "serde(rename_all_fields = \"SCREAMING_SNAKE_CASE\")"))
                eff["upper"].append((part["id"], k))
        for h in part["handlers"]:
            if h["kind"] in ("exec", "query", "sudo") and rng.random() < 0.35:
                alias = "alias_" + h["hid"].replace(".", "_") + "_zz"
                h["sv_attrs"] = [a for a in h.get("sv_attrs", []) if "shared_" in a] + [f"serde(alias = \"{alias}\")"]
                h["sv_attrs_above"] = rng.choice([0, 1])
                eff["alias"].append((h["hid"], alias))
            for a in h["args"]:
                ty = p["types"][a["ti"]]
                from . import types as T_
                if T_.params_in(ty):
                    continue   # serde(default) on a field mentioning a type parameter makes the derive demand `Param: Default`
                if ty.kind in DEFAULTABLE and all(s.kind in DEFAULTABLE or True for s in ty.sub) and rng.random() < 0.4:
                    a["attrs"] = ["serde(default)"]
                    eff["default"].append((h["hid"], a["name"]))
    p["attr_effects"] = eff
    return p


# ---------------------------------------------------------------- C19: crate alias and parameter names

ALIAS = "svx"
CANDIDATE_NAMES = [chr(c) for c in range(ord("A"), ord("Z") + 1)] + ["Msg", "Query", "Param", "Data", "Exec", "Custom", "Item"] + [
    # further plain words, many of them names of framework items that generated code mentions by path
    # (not the names the renderer itself writes unqualified in handler signatures: Addr, Binary, Coin, Reply, Response, Empty, ..)
    "Key", "Value", "Config", "State", "Ctx", "Deps", "Env", "Info", "Storage", "Event", "Token", "Owner",
    "Admin", "Payload", "Messages", "Sudo", "Migrate", "Instantiate", "Remote", "Interface",
    # the suite's own convention (`ParamT`): plain words with a `T` suffix; and a chain type the generated reply dispatch mentions
    "ExecT", "QueryT", "MsgT", "SudoT", "DataT", "ItemT", "KeyT", "ValueT", "SubMsgResponse"]
# names that are reserved for associated types of interfaces (sylvia documents them) but are ordinary parameter names of a contract
CONTRACT_ONLY_NAMES = ["Error", "ExecC", "QueryC", "Contract"]


def alias_programs(ctx):
    """A slice of every family, rendered against a renamed dependency (`svx = { package = "sylvia" }`)."""
    n = ctx.pick(1, 8)
    out = {}
    progs = []
    for i in range(n):
        rng = ctx.rng("alias", i)
        a = spec.gen_program(rng, f"al_g{i:02d}", n_ifaces=2, customs={"msg": i % 2 == 0, "query": i % 3 == 0})
        b = spec.gen_program(rng, f"al_r{i:02d}", n_ifaces=rng.choice([0, 1]))
        # make sure both kinds of partial coverage occur (pass-through arms are generated)
        for _ in range(50):
            b = spec.gen_program(rng, f"al_r{i:02d}", n_ifaces=rng.choice([0, 1]))
            tb = spec.gen_reply_table(rng, b, n_names=4)
            covers = {v["cover"] for v in tb["names"].values()}
            if {"s", "e"} <= covers:
                break
        c = spec.gen_generic_program(rng, f"al_x{i:02d}")
        d = spec.gen_ep_config_program(rng, f"al_e{i:02d}", rng.sample(spec.ALL_EP_KINDS, 2), True, "legacy", True)
        e = spec.gen_program(rng, f"al_a{i:02d}", n_ifaces=1)
        place_effect_attrs(rng, e)
        # (the C01 monitor run on this family predicts plain argument keys: leave the key-renaming attribute to C17)
        for part in e["parts"]:
            part["msg_attrs"] = [(k, a) for k, a in part["msg_attrs"] if "rename_all_fields" not in a]
        e["attr_effects"]["upper"] = []
        f = spec.gen_program(rng, f"al_q{i:02d}", n_ifaces=1, customs={"msg": True, "query": True})
        spec.gen_reply_table(rng, f, n_names=2)
        # every code-generation branch of the interface glue: an interface written for Empty under a contract with custom
        # types (bridging arms), one with associated custom types, one with fixed ones
        spec.set_custom_mode(f, f["parts"][1], "empty")
        spec.set_custom_mode(a, a["parts"][1], "empty")
        spec.set_custom_mode(a, a["parts"][2], ["assoc", "fixed"][i % 2])
        if i % 2 == 0:
            # (and the interface with associated custom types takes `msgs: Vec<CosmosMsg<Self::ExecC>>`, as cw1 does)
            pt = a["parts"][2]
            if not any(h["kind"] == "exec" for h in pt["handlers"]):
                pt["handlers"].append(spec._new_handler(rng, a, pt, "exec", "relay_msgs", True))
            spec.add_cosmos_msgs_arg(a, pt)
        progs += [a, b, c, d, e, f]
    for k, p in enumerate(progs):
        p["_render_kw"] = {"sv": ALIAS}
        out.setdefault(f"al{k % ctx.pick(3, 16):02d}", []).append(p)
    return out


def name_program(name, idx, assoc=True, plain=False):
    """A generic contract whose type parameter, and (assoc) an interface whose associated type, is called `name`."""
    import random
    rng = random.Random(idx)
    from . import types as T
    p = {"name": f"nm_{name.lower()}_{idx:02d}", "custom": {"msg": idx % 2 == 0, "query": idx % 3 == 0}, "error": "MonErr", "types": [], "parts": [],
         "replies": False, "overrides": [], "generics": [{"name": name, "concrete": "u32"}]}
    g = T.generic_param(name, T.U32)
    at = T.assoc_type(name, T.STRING)
    ti = lambda t: spec.intern_type(p, t)
    c = {"id": "c", "module": None, "trait": None, "variant": "Contract", "handlers": []}
    p["parts"].append(c)

    def h(part, kind, nm, args, resp=None):
        d = {"kind": kind, "name": nm, "safe": True, "args": [{"name": an, "ti": ti(t)} for an, t in args], "ret_err": "own",
             "hid": f"{part['id']}.{kind}.{nm}", "part": part["id"]}
        if resp is not None:
            d["resp_ti"] = ti(resp)
        part["handlers"].append(d)
    h(c, "instantiate", "instantiate", [("first", T.option(g)), ("count", T.U64)])
    h(c, "exec", "store", [("value", g), ("items", T.vec(g))])
    h(c, "exec", "touch", [("flag", T.BOOL)])
    h(c, "query", "load", [("key", T.STRING)], resp=g)
    # sudo mentions only a *path* ending in the parameter's name: its message must stay non-generic
    named = T.Ty(f"svmon::named::{name}", lambda r, d: {"v": r.randrange(1000)}, "struct")
    if plain:
        named = T.PT   # (spelling twins: no type whose own name follows the parameter's)
    h(c, "sudo", "force", [("value", T.U64)])
    h(c, "sudo", "note", [("tagged", named), ("also", T.option(named))])
    h(c, "migrate", "migrate", [("value", T.tup(g, T.U32))])
    i0 = {"id": "i0", "module": "named_iface", "trait": "NamedIface", "variant": "NamedIface", "handlers": [], "custom_mode": ["assoc", "empty", "fixed"][idx % 3],
          "error": "MonErr", "assoc": [(name, "String")], "assoc_concrete": [(name, "String")]}
    if not assoc:
        i0["assoc"], i0["assoc_concrete"] = [], []
        at = T.STRING
    p["parts"].append(i0)
    h(i0, "exec", "put", [("item", at), ("n", T.U32)])
    h(i0, "query", "get", [("item", T.option(at))], resp=at)
    h(i0, "sudo", "reset", [("items", T.vec(at))])
    spec.gen_reply_table(rng, p, n_names=2)
    return p


def pair_program(n1, n2, idx):
    """Two type parameters whose first-use order (n1 then n2) is not alphabetical: the generated types are
    `ExecMsg<n1, n2>`, whatever the names are."""
    from . import types as T
    p = {"name": f"np_{n1.lower()}_{n2.lower()}_{idx:02d}", "custom": {"msg": False, "query": False}, "error": "StdError", "types": [], "parts": [],
         "replies": False, "overrides": [], "generics": [{"name": n1, "concrete": "u32"}, {"name": n2, "concrete": "String"}]}
    g1, g2 = T.generic_param(n1, T.U32), T.generic_param(n2, T.STRING)
    ti = lambda t: spec.intern_type(p, t)
    c = {"id": "c", "module": None, "trait": None, "variant": "Contract", "handlers": []}
    p["parts"].append(c)

    def h(kind, nm, args, resp=None):
        d = {"kind": kind, "name": nm, "safe": True, "args": [{"name": an, "ti": ti(t)} for an, t in args], "ret_err": "own",
             "hid": f"c.{kind}.{nm}", "part": "c"}
        if resp is not None:
            d["resp_ti"] = ti(resp)
        c["handlers"].append(d)
    h("instantiate", "instantiate", [("first", g1), ("second", T.option(g2))])
    h("exec", "store", [("left", g1), ("right", g2)])
    h("query", "load", [("key", g1)], resp=g2)
    h("sudo", "force", [("a", T.vec(g1)), ("b", g2)])
    return p


# user types named like items of the framework's own vocabulary (cosmwasm_std, sylvia, serde, schemars): wherever a
# handler mentions the bare name, the user's type is meant -- in the messages, the dispatch and the response table
# (not candidates: names of items the macros themselves define next to the messages -- Api, Executor, Querier -- and the reserved
# associated-type name Error; a user type of such a name does not compile on the pinned tree and no property promises it would)
SHADOW_NAMES = ["Empty", "StdError", "StdResult", "Response", "Binary", "Addr", "Coin", "Uint128", "Reply", "SubMsgResult", "Deps", "DepsMut",
                "Env", "MessageInfo", "CosmosMsg", "WasmMsg", "SubMsg", "Event", "Storage", "QuerierWrapper", "Value", "Serialize",
                "Deserialize", "JsonSchema", "Remote", "App", "PhantomData", "Timestamp", "BlockInfo", "BoundQuerier",
                "ExecCtx", "QueryCtx", "Attribute"]


def shadow_program(name, idx):
    """A contract + interface whose handlers take and return a user type called `name`."""
    import random
    rng = random.Random(1000 + idx)
    from . import types as T
    from .render import R
    p = {"name": f"sh_{name.lower()}_{idx:02d}", "custom": {"msg": idx % 2 == 0, "query": idx % 3 == 0}, "error": "MonErr", "types": [], "parts": [],
         "replies": False, "overrides": [], "shadow": [name]}
    u = T.Ty(R.SHADOW_MARK + name, lambda r, d: {"v": r.randrange(1000)}, "struct")
    ti = lambda t: spec.intern_type(p, t)
    c = {"id": "c", "module": None, "trait": None, "variant": "Contract", "handlers": []}
    p["parts"].append(c)

    def h(part, kind, nm, args, resp=None):
        d = {"kind": kind, "name": nm, "safe": True, "args": [{"name": an, "ti": ti(t)} for an, t in args], "ret_err": "own",
             "hid": f"{part['id']}.{kind}.{nm}", "part": part["id"]}
        if resp is not None:
            d["resp_ti"] = ti(resp)
        part["handlers"].append(d)
    h(c, "instantiate", "instantiate", [("first", T.option(u)), ("count", T.U64)])
    h(c, "exec", "store", [("value", u), ("items", T.vec(u))])
    h(c, "exec", "touch", [("flag", T.BOOL)])
    h(c, "query", "load", [("key", T.STRING)], resp=u)
    h(c, "query", "count", [("of", u)], resp=T.U32)
    h(c, "sudo", "force", [("value", u)])
    h(c, "migrate", "migrate", [("value", T.tup(u, T.U32))])
    i0 = {"id": "i0", "module": "shadow_iface", "trait": "ShadowIface", "variant": "ShadowIface", "handlers": [], "custom_mode": ["assoc", "empty", "fixed"][idx % 3],
          "error": "MonErr"}
    p["parts"].append(i0)
    h(i0, "exec", "put", [("item", u), ("n", T.U32)])
    h(i0, "query", "get", [("item", T.option(u))], resp=u)
    h(i0, "query", "size", [], resp=T.U64)
    h(i0, "sudo", "reset", [("items", T.vec(u))])
    spec.gen_reply_table(rng, p, n_names=2)
    return p


def shadow_programs(ctx):
    out = {}
    for k, nm in enumerate(SHADOW_NAMES):
        out.setdefault(f"sh{k % 8:02d}", []).append(shadow_program(nm, k))
    return out


def wide_programs(ctx):
    """Programs whose exec / query / sudo handlers take 128-bit primitives (JSON numbers beyond the 64-bit range)."""
    from . import types as T
    out = []
    for i in range(ctx.pick(3, 10)):
        rng = ctx.rng("wide", i)
        p = spec.gen_program(rng, f"wide{i:02d}", n_ifaces=rng.choice([0, 1, 2]))
        k = 0
        for h in spec.handlers(p):
            if h["kind"] in ("exec", "query", "sudo") and h["args"] and not h["args"][0]["name"].startswith("p1"):
                h["args"][0]["ti"] = spec.intern_type(p, [T.U128, T.I128, T.option(T.U128), T.vec(T.I128)][k % 4])
                k += 1
        out.append(p)
    return {"wd00": out}


LIFETIME_NAMES = ["'de", "'a", "'b", "'x"]


def name_programs(ctx):
    out = {}
    names = CANDIDATE_NAMES
    for k, nm in enumerate(names):
        out.setdefault(f"nm{k % 8:02d}", []).append(name_program(nm, k))
    for k, nm in enumerate(CONTRACT_ONLY_NAMES):
        q = name_program(nm, len(names) + k, assoc=False)
        if nm == "Contract":
            q["_render_kw"] = {"contract_ident": "Holder"}   # the contract type itself cannot be called like its parameter
            q["parts"][0]["variant"] = "Holder"
        out.setdefault(f"nm{k % 8:02d}", []).append(q)
    # the same program under two spellings of its parameter (everything the program publishes must be the same)
    out.setdefault("nm00", []).append(name_program("Param", 900, assoc=False, plain=True))
    out.setdefault("nm00", []).append(name_program("ParamT", 900, assoc=False, plain=True))
    # lifetime names of the user's own: in a higher-ranked bound of the contract's where clause, in the bound of an interface's
    # associated type, and as the contract's lifetime parameter (helper lifetimes of generated impls must stay clear of them)
    for k, lt in enumerate(LIFETIME_NAMES):
        q = name_program("Param", 700 + k, assoc=True)
        q["name"] = f"nm_lt_w_{lt[1:]}_{k:02d}"
        q["generics"][0]["hrtb"] = True
        q["hrtb_lt"] = lt
        out.setdefault(f"nm{k % 8:02d}", []).append(q)
        q = name_program("Param", 720 + k, assoc=True)
        q["name"] = f"nm_lt_a_{lt[1:]}_{k:02d}"
        q["parts"][1]["assoc_hrtb"] = lt
        out.setdefault(f"nm{(k + 3) % 8:02d}", []).append(q)
        q = name_program("Param", 740 + k, assoc=True)
        q["name"] = f"nm_lt_p_{lt[1:]}_{k:02d}"
        q["lifetime"] = lt
        out.setdefault(f"nm{(k + 5) % 8:02d}", []).append(q)
    for k, (n1, n2) in enumerate([("Msg", "Data"), ("Z", "A"), ("Query", "Param"), ("T", "E"), ("Item", "Custom"), ("Value", "Key"), ("Error", "Data")]):
        out.setdefault(f"nm{k % 8:02d}", []).append(pair_program(n1, n2, k))
    return out
