"""Type universe and name vocabulary of the program generator.

A TypeDesc knows its Rust spelling and how to draw a JSON-encodable python value that
cosmwasm's serde_json_wasm decodes into that Rust type.  Canonical encodings are never
predicted here: the runner's `canon:<n>` op (from_json -> to_json_string of the bare
argument type) supplies each argument's *own* JSON encoding.
"""
import base64
import json

HOSTILE_STRINGS = [
    "", "a", "hello", "with space", "quote\"inside", "back\\slash", "unié中", "{\"k\":1}",
    "null", "0", "tab\there", "new\nline", "'single'", "exec", "ünï",
    " lead", "trail ", "line\n", "\ttab", "  ",
]


class Ty:
    def __init__(self, rust, gen, kind, params=None, sub=(), concrete=None, trait_rust=None):
        self.rust = rust                      # spelling in the contract impl / interface impl
        self.concrete = concrete or rust      # spelling with every generic parameter substituted (glue)
        self.trait_rust = trait_rust or rust  # spelling inside an interface trait (`Self::Assoc`)
        self._gen = gen
        self.kind = kind
        self.sub = tuple(sub)

    def gen(self, rng, depth=0):
        return self._gen(rng, depth)

    def wrong(self, rng):
        """A JSON value that must NOT decode into this type."""
        if self.kind in ("bool",):
            return "yes"
        if self.kind in ("uint", "int"):
            return "12" if self.rust not in ("Uint128",) else True
        if self.kind in ("string", "addr", "binary", "uint128"):
            return 17
        if self.kind in ("option",):
            return self.sub[0].wrong(rng)
        if self.kind in ("vec", "tuple"):
            return {"not": "an array"}
        if self.kind in ("coin", "struct", "map"):
            return [1, 2]
        if self.kind in ("enum",):
            return "no_such_variant"
        if self.kind == "phantom":
            return 5
        return {"x": {"y": []}}

    def __repr__(self):
        return self.rust


def _uint(bits):
    def g(rng, d):
        c = rng.random()
        if c < 0.15:
            return 0
        if c < 0.3:
            return (1 << bits) - 1
        return rng.randrange(0, 1 << bits)
    return g


def _int(bits):
    def g(rng, d):
        c = rng.random()
        if c < 0.1:
            return -(1 << (bits - 1))
        if c < 0.2:
            return (1 << (bits - 1)) - 1
        return rng.randrange(-(1 << (bits - 1)), 1 << (bits - 1))
    return g


def _string(rng, d):
    if rng.random() < 0.5:
        return rng.choice(HOSTILE_STRINGS)
    n = rng.randrange(0, 12)
    return "".join(rng.choice("abcxyz019_- ") for _ in range(n))


def _addr(rng, d):
    return rng.choice(["alice", "bob", "cosmwasm1xyz", "c0ntract", "owner", ""]) + str(rng.randrange(100))


def _binary(rng, d):
    n = rng.choice([0, 1, 2, 3, 8, 17])
    return base64.b64encode(bytes(rng.randrange(256) for _ in range(n))).decode()


def _uint128(rng, d):
    c = rng.random()
    if c < 0.15:
        return "0"
    if c < 0.3:
        return str((1 << 128) - 1)
    return str(rng.randrange(0, 1 << rng.choice([8, 64, 100, 128])))


BOOL = Ty("bool", lambda r, d: r.random() < 0.5, "bool")
U8 = Ty("u8", _uint(8), "uint")
U32 = Ty("u32", _uint(32), "uint")
U64 = Ty("u64", _uint(64), "uint")
I32 = Ty("i32", _int(32), "int")
I64 = Ty("i64", _int(64), "int")
# 128-bit primitives travel as JSON *numbers* (cosmwasm's own Uint128 as a string): not part of the general universe (see
# DESIGN: C03 finding "u128 fields"), used for reply payloads and by the dedicated `wide` programs
U128 = Ty("u128", _uint(128), "uint")
I128 = Ty("i128", _int(128), "int")
STRING = Ty("String", _string, "string")
UINT128 = Ty("Uint128", _uint128, "uint128")
ADDR = Ty("Addr", _addr, "addr")
BINARY = Ty("Binary", _binary, "binary")


def _coin(rng, d):
    return {"denom": rng.choice(["uatom", "ujuno", "x"]), "amount": _uint128(rng, d)}


COIN = Ty("Coin", _coin, "coin")


def _pt(rng, d):
    return {"x": _uint(32)(rng, d), "label": _string(rng, d)}


PT = Ty("svmon::Pt", _pt, "struct")


def _shape(rng, d):
    c = rng.randrange(3)
    if c == 0:
        return "dot"
    if c == 1:
        return {"rect": {"w": _uint(32)(rng, d), "h": _uint(32)(rng, d)}}
    return {"tag": {"name": _string(rng, d)}}


SHAPE = Ty("svmon::Shape", _shape, "enum")

SCALARS = [BOOL, U8, U32, U64, I32, I64, STRING, UINT128, ADDR, BINARY, COIN, PT, SHAPE]
# a marker argument: one more entry of the message, always `null`
PHANTOM = Ty("std::marker::PhantomData<u32>", lambda r, d: None, "phantom")


def option(t):
    return Ty(f"Option<{t.rust}>", lambda r, d: None if r.random() < 0.3 else t.gen(r, d + 1), "option", sub=(t,),
              concrete=f"Option<{t.concrete}>", trait_rust=f"Option<{t.trait_rust}>")


def vec(t):
    return Ty(f"Vec<{t.rust}>", lambda r, d: [t.gen(r, d + 1) for _ in range(r.choice([0, 1, 2, 3]))], "vec", sub=(t,),
              concrete=f"Vec<{t.concrete}>", trait_rust=f"Vec<{t.trait_rust}>")


def cosmos_msgs(custom_msg):
    """`Vec<CosmosMsg<Self::ExecC>>` of an interface with associated custom types (the cw1 `execute` shape): the reserved
    associated type `ExecC` is a parameter of the generated message like any other associated type."""
    m = "MyMsg" if custom_msg else "Empty"

    def g(r, d):
        out = []
        for _ in range(r.choice([0, 1, 2])):
            c = r.random()
            if c < 0.5:
                out.append({"bank": {"send": {"to_address": "addr" + str(r.randrange(99)), "amount": [{"denom": "uatom", "amount": str(r.randrange(1000))}]}}})
            elif c < 0.8 or not custom_msg:
                out.append({"wasm": {"execute": {"contract_addr": "c" + str(r.randrange(99)), "msg": "e30=", "funds": []}}})
            else:
                out.append({"custom": {"ping": {"n": r.randrange(1000)}}})
        return out
    t = Ty(f"Vec<CosmosMsg<{m}>>", g, "vec", concrete=f"Vec<CosmosMsg<{m}>>", trait_rust="Vec<CosmosMsg<Self::ExecC>>")
    t.param = "ExecC"
    return t


def qualified(t):
    """`<svmon::Enc as svmon::Encoding<T>>::Wire` (= Vec<T>): T occurs only as a generic argument of a non-final path segment."""
    q = Ty(f"<svmon::Enc as svmon::Encoding<{t.rust}>>::Wire", lambda r, d: [t.gen(r, d + 1) for _ in range(r.choice([0, 1, 2]))], "vec", sub=(t,),
           concrete=f"<svmon::Enc as svmon::Encoding<{t.concrete}>>::Wire", trait_rust=f"<svmon::Enc as svmon::Encoding<{t.trait_rust}>>::Wire")
    q.qself = True   # not usable as a query response type: sylvia takes response types as plain paths (DESIGN, limits)
    return q


def tup(t, u):
    return Ty(f"({t.rust}, {u.rust})", lambda r, d: [t.gen(r, d + 1), u.gen(r, d + 1)], "tuple", sub=(t, u),
              concrete=f"({t.concrete}, {u.concrete})", trait_rust=f"({t.trait_rust}, {u.trait_rust})")


def btmap(t):
    def g(r, d):
        ks = r.sample(["k", "a", "zz", "K", "0", "with space"], r.choice([0, 1, 2, 3]))
        return {k: t.gen(r, d + 1) for k in sorted(ks)}
    return Ty(f"std::collections::BTreeMap<String, {t.rust}>", g, "map", sub=(t,),
              concrete=f"std::collections::BTreeMap<String, {t.concrete}>", trait_rust=f"std::collections::BTreeMap<String, {t.trait_rust}>")


def random_type(rng, depth=0):
    c = rng.random()
    if depth == 0 and c < 0.02:
        return PHANTOM
    if depth >= 2 or c < 0.6:
        return rng.choice(SCALARS)
    if c < 0.72:
        return option(_non_option(rng, depth + 1))
    if c < 0.84:
        return vec(random_type(rng, depth + 1))
    if c < 0.93:
        return tup(random_type(rng, depth + 1), random_type(rng, depth + 1))
    return btmap(random_type(rng, depth + 1))


# ---------------------------------------------------------------- names

# words: lower-case letters optionally followed by digits (the C01 domain)
WORDS_SAFE = ["get", "set", "transfer", "from", "to", "mint", "burn", "item", "config", "owner",
              "tick", "update", "admin", "list", "info", "claim", "vote", "pause", "limit", "state", "phantom"]
WORDS_DIGIT = ["v2", "transfer2", "x1", "admin9", "q7", "step10", "a1"]
WORDS_SINGLE = ["a", "b", "x", "y", "k"]

RUST_RESERVED = {"new", "type", "move", "ref", "self", "ctx", "as", "in", "do", "fn", "if", "box", "dyn",
                 "mod", "use", "pub", "let", "mut", "for", "loop", "impl", "enum", "match", "priv",
                 "try", "gen", "dispatch", "hid", "sv", "super", "crate", "instantiate_msg"}


def method_name(rng, safe_only=False):
    """(name, helper_safe).  helper_safe: every word alphabetic with >= 2 letters, so every
    snake/camel casing routine agrees and generated helper method names can be predicted."""
    n = rng.choice([1, 1, 2, 2, 3, 4])
    words = []
    for _ in range(n):
        c = rng.random()
        if safe_only or c < 0.6:
            words.append(rng.choice(WORDS_SAFE))
        elif c < 0.85:
            words.append(rng.choice(WORDS_DIGIT))
        else:
            words.append(rng.choice(WORDS_SINGLE))
    name = "_".join(words)
    safe = all(w in WORDS_SAFE for w in words)
    return name, safe


def variant_ident(name):
    """UpperCamel of a snake name: words are the non-empty pieces between underscores."""
    return "".join(w[:1].upper() + w[1:] for w in name.split("_") if w != "")


def wire_name(name):
    """The name a variant serialises under: serde's snake_case of the UpperCamel variant identifier.
    Equals `name` for names of the C01 domain; for extended names (leading / doubled / trailing underscores,
    all-digit words) it is what the two casing steps leave (`step_1` -> `Step1` -> `step1`)."""
    v = variant_ident(name)
    out = []
    for i, ch in enumerate(v):
        if i > 0 and ch.isupper():
            out.append("_")
        # serde: `to_ascii_lowercase` - a non-ASCII capital stays a capital on the wire
        out.append(ch.lower() if ch.isascii() else ch)
    return "".join(out)


WORDS_NON_ASCII = ["über", "étage", "öffnen", "état", "żółw"]


def arg_key(a):
    """JSON key of an argument: its name, without the raw-identifier prefix."""
    n = a["name"] if isinstance(a, dict) else a
    return n[2:] if n.startswith("r#") else n


def extended_name(rng):
    """A method name outside the C01 domain (still a valid Rust identifier)."""
    words = [rng.choice(WORDS_SAFE + WORDS_DIGIT + WORDS_SINGLE) for _ in range(rng.choice([1, 2, 2, 3]))]
    c = rng.random()
    if c < 0.2:
        # a word starting with a non-ASCII letter that has an upper-case form
        words.insert(rng.randrange(0, len(words) + 1), rng.choice(WORDS_NON_ASCII))
        return "_".join(words)
    if c < 0.3:
        return "_" + "_".join(words)
    if c < 0.55:
        return "__".join(words) if len(words) > 1 else words[0] + "_"
    if c < 0.85:
        words.insert(rng.randrange(1, len(words) + 1), str(rng.choice([0, 1, 2, 7, 10, 42])))
        return "_".join(words)
    return "_".join(words) + "_"


ARG_WORDS = ["amount", "to", "from", "owner", "id", "a", "b", "x", "y", "value", "key", "flag", "n",
             "denom", "who", "memo", "arg1", "arg2", "v2", "_unused", "_x", "data_in", "items", "limit0",
             # names of parameters / locals of the generated dispatch, helper and proxy functions
             "contract", "ctx", "msg", "deps", "env", "info", "querier", "funds", "contract_addr",
             # keyword-dodging names: the trailing underscore is part of the key
             "type_", "ref_", "match_", "amount_",
             # names that are not snake_case: the key is the name as written
             "tokenId", "startAfter", "royaltyBps"]
RAW_ARGS = ["r#type", "r#in", "r#match", "r#ref"]


def arg_name(rng, taken):
    for _ in range(100):
        n = rng.choice(ARG_WORDS)
        if rng.random() < 0.06:
            n = rng.choice(RAW_ARGS)
            if n not in taken:
                return n
            continue
        if rng.random() < 0.2:
            n = n + "_" + rng.choice(ARG_WORDS).lstrip("_")
        if n not in taken and (n not in RUST_RESERVED or n == "ctx"):
            return n
    raise RuntimeError("arg names exhausted")


def dumps(v):
    return json.dumps(v, ensure_ascii=False, separators=(",", ":"))


def _non_option(rng, depth):
    for _ in range(20):
        t = random_type(rng, depth)
        if t.kind != "option":
            return t
    return U32


def generic_param(name, concrete_ty):
    """A contract type parameter `name`, instantiated with `concrete_ty` in the glue."""
    t = Ty(name, lambda r, d: concrete_ty.gen(r, d), "generic", concrete=concrete_ty.concrete)
    t.param = name
    return t


def assoc_type(name, concrete_ty):
    """An interface associated type: `Self::name` in the trait, the bound concrete type elsewhere."""
    t = Ty(concrete_ty.rust, lambda r, d: concrete_ty.gen(r, d), "assoc", concrete=concrete_ty.concrete, trait_rust=f"Self::{name}")
    t.param = name
    return t


def params_in(ty):
    """Names of generic parameters / associated types occurring in a type (in order of occurrence)."""
    out = []
    if getattr(ty, "param", None):
        out.append(ty.param)
    for s in ty.sub:
        for n in params_in(s):
            if n not in out:
                out.append(n)
    return out
