"""Check framework: tiers, seeds, corpus families, verdicts, evidence, known findings."""
import hashlib
import json
import os
import random
import sys
import threading
import time
import traceback

from . import corpus, render, runner, spec

VERIF = corpus.VERIF
EVIDENCE_DIR = os.environ.get("VERIF_EVIDENCE_DIR", os.path.join(VERIF, "evidence"))
KNOWN = os.path.join(VERIF, "known_findings.json")


class Inconclusive(Exception):
    pass


class Violation:
    def __init__(self, prop, signature, what, detail):
        self.prop = prop
        self.signature = signature  # stable key used for known-findings matching
        self.what = what            # one-line human text
        self.detail = detail        # JSON-able witness


class Ctx:
    def __init__(self, prop, tier, seed):
        self.prop = prop
        self.tier = tier
        self.seed = seed
        self.t0 = time.time()
        self.violations = []
        self.known_hits = []
        self.evaluations = 0
        self.distinct = set()
        self.samples = []
        self.cov = {}
        self.assumptions = []
        self.rule = ""
        self.level = "exploration"
        self.exhaustive = None
        self._ws = {}
        self.lock = threading.RLock()
        self.label = f"{tier}"
        self.workdir = os.path.join(corpus.WORK, self.label, "run", prop)
        os.makedirs(self.workdir, exist_ok=True)
        try:
            self.known = json.load(open(KNOWN))["findings"]
        except FileNotFoundError:
            self.known = []

    # ------------------------------------------------------------ randomness
    def rng(self, *salt):
        h = hashlib.sha256(("/".join(str(s) for s in (self.seed,) + salt)).encode()).digest()
        return random.Random(int.from_bytes(h[:8], "big"))

    @property
    def quick(self):
        return self.tier == "quick"

    def pick(self, q, t):
        return q if self.quick else t

    # ------------------------------------------------------------ bookkeeping
    def count(self, key, n=1):
        with self.lock:
            self.cov[key] = self.cov.get(key, 0) + n

    def ev(self, n=1):
        with self.lock:
            self.evaluations += n

    def nontrivial(self, key):
        with self.lock:
            if not isinstance(key, str):
                key = json.dumps(key, sort_keys=True, ensure_ascii=False)
            self.distinct.add(hashlib.sha1(key.encode()).digest()[:10])

    def sample(self, s, limit=6):
        with self.lock:
            if len(self.samples) < limit and s not in self.samples:
                self.samples.append(s)

    def violate(self, signature, what, detail):
        with self.lock:
            """Records a violation unless a recorded known finding covers exactly this signature."""
            for i, k in enumerate(self.known):
                if k.get("status") == "recorded" and k["property"] == self.prop and signature in k.get("signatures", []):
                    if i not in [j for j, _ in self.known_hits]:
                        self.known_hits.append((i, k.get("what", what)))
                    self.cov["known_finding_observations"] = self.cov.get("known_finding_observations", 0) + 1
                    return
            if len(self.violations) < 50:
                self.violations.append(Violation(self.prop, signature, what, detail))
            else:
                self.count("violations_beyond_50")

    # ------------------------------------------------------------ finish
    def finish(self):
        wall = time.time() - self.t0
        cov = dict(self.cov)
        cov.update({
            "evaluations": self.evaluations,
            "distinct_nontrivial": len(self.distinct),
            "rule": self.rule,
            "samples": self.samples,
        })
        if self.exhaustive is not None:
            cov["exhaustive"] = self.exhaustive
        evd = {
            "property_id": self.prop, "tier": self.tier, "seed": self.seed, "level": self.level,
            "coverage": cov, "assumptions": self.assumptions, "wall_s": round(wall, 2),
            "violations": len(self.violations),
        }
        if self.known_hits:
            evd["coverage"]["known_findings_observed"] = [w for _, w in self.known_hits]
        os.makedirs(EVIDENCE_DIR, exist_ok=True)
        path = os.path.join(EVIDENCE_DIR, f"{self.prop}.json")
        for sig, what in self.known_hits:
            print(f"KNOWN-FINDING: property={self.prop} {what}")
        if self.violations:
            rp = os.path.join(self.workdir, f"replay_{self.tier}_{self.seed}.json")
            with open(rp, "w") as f:
                json.dump({"property": self.prop, "tier": self.tier, "seed": self.seed,
                           "violations": [{"signature": v.signature, "what": v.what, "detail": v.detail}
                                          for v in self.violations]}, f, indent=1, ensure_ascii=False, default=str)
            with open(path, "w") as f:
                json.dump(evd, f, indent=1, ensure_ascii=False, default=str)
            for v in self.violations[:10]:
                print(f"  violation: {v.what} [{v.signature}]")
            print(f"VIOLATION property={self.prop} replay={rp}")
            return 1
        if self.evaluations == 0 or len(self.distinct) < 2:
            print(f"INCONCLUSIVE property={self.prop}: nothing observed (evaluations={self.evaluations})")
            return 2
        with open(path, "w") as f:
            json.dump(evd, f, indent=1, ensure_ascii=False, default=str)
        print(f"OK property={self.prop} tier={self.tier} seed={self.seed} evaluations={self.evaluations} "
              f"distinct_nontrivial={len(self.distinct)} wall={wall:.1f}s")
        return 0

    # ------------------------------------------------------------ corpus families
    def family(self, fam):
        """Builds (if needed) the bins of a program family; returns list of (prog, Runner-getter)."""
        from . import families
        return families.get(self, fam)


def main(argv):
    import argparse
    ap = argparse.ArgumentParser()
    ap.add_argument("prop")
    ap.add_argument("--tier", default=os.environ.get("VERIF_TIER", "quick"))
    ap.add_argument("--replay", default=None)
    a = ap.parse_args(argv)
    seed = int(os.environ.get("VERIF_SEED", "0") or 0)
    prop = a.prop.upper()
    tier = a.tier
    if a.replay:
        # a replay file records tier and seed; every case is re-derived deterministically from them, so the
        # recorded violations (printed first) are re-checked by running the same exploration again
        rp = json.load(open(a.replay))
        tier, seed = rp.get("tier", tier), int(rp.get("seed", seed))
        print(f"replaying {a.replay}: property={rp.get('property')} tier={tier} seed={seed}, {len(rp.get('violations', []))} recorded violation(s)")
        for v in rp.get("violations", [])[:10]:
            print(f"  recorded: {v['what'][:200]} [{v['signature']}]")
    ctx = Ctx(prop, tier, seed)
    try:
        mod = __import__(f"vlib.checks.{prop.lower()}", fromlist=["run"])
        mod.run(ctx)
        return ctx.finish()
    except Inconclusive as e:
        if ctx.violations:
            # violations witnessed before the exploration broke off stay violations (each has its replay record)
            print(f"note: exploration broke off ({str(e)[:300]}); reporting the {len(ctx.violations)} violation(s) witnessed before that")
            return ctx.finish()
        print(f"INCONCLUSIVE property={prop}: {e}")
        return 2
    except runner.HarnessError as e:
        if ctx.violations:
            print(f"note: exploration broke off (harness error: {str(e)[:300]}); reporting the {len(ctx.violations)} violation(s) witnessed before that")
            return ctx.finish()
        traceback.print_exc()
        print(f"INCONCLUSIVE property={prop}: harness error: {e}")
        return 2
    except Exception as e:  # harness bug: never a violation
        traceback.print_exc()
        print(f"INCONCLUSIVE property={prop}: harness exception {type(e).__name__}: {e}")
        return 2
