"""E-rustc: the compiler's verdict on generated programs as an observation.

`verdicts(ctx, label, modules)` puts every program into its own module file of one library
crate of the tier workspace, runs `cargo check --message-format=json` (or `cargo build` for
post-monomorphisation errors) and returns {module: [error diagnostics]}.  Because an
early-phase error in one module can hide later-phase errors of the others, flagged modules are
removed and the crate is re-checked until it is clean.
"""
import fcntl
import json
import os
import re
import subprocess
import time

from . import corpus
from .families import _emit_bins
from .framework import Inconclusive


def _pkg_manifest(name, sv_name, features=None, with_svmon=True):
    feats = ", ".join(f'"{f}"' for f in (corpus.SYLVIA_FEATURES if features is None else features))
    dep = f'sylvia = {{ path = "{corpus.REPO}/sylvia", features = [{feats}] }}'
    if sv_name != "sylvia":
        dep = f'{sv_name} = {{ package = "sylvia", path = "{corpus.REPO}/sylvia", features = [{feats}] }}'
    return f"""[package]
name = "{name}"
version = "0.0.0"
edition = "2021"

[lib]
path = "src/lib.rs"

[dependencies]
{dep}
""" + ('svmon = { path = "../../svmon" }\n' if with_svmon else "")


def verdicts(ctx, label, modules, sv_name="sylvia", mode="check", max_rounds=8, features=None, with_svmon=True):
    """features / with_svmon: a crate that depends on the framework alone, with another feature set (svmon needs `mt`,
    and cargo unifies features over everything one invocation builds)."""
    ws = corpus.Workspace(ctx.label)
    _emit_bins(ws, {}, {})  # make sure the workspace skeleton exists
    name = f"rc_{label}"
    d = os.path.join(ws.root, "bins", name)
    src = os.path.join(d, "src")
    os.makedirs(src, exist_ok=True)
    corpus.write_if_changed(os.path.join(d, "Cargo.toml"), _pkg_manifest(name, sv_name, features, with_svmon))
    for m, text in modules.items():
        corpus.write_if_changed(os.path.join(src, m + ".rs"), text)
    for f in os.listdir(src):
        if f != "lib.rs" and f[:-3] not in modules:
            os.remove(os.path.join(src, f))
    live = sorted(modules)
    out = {m: [] for m in modules}
    total = 0.0
    for rnd in range(max_rounds):
        corpus.write_if_changed(os.path.join(src, "lib.rs"),
                                "#![allow(unused, deprecated)]\n" + "".join(f"pub mod {m};\n" for m in live))
        _emit_bins(ws, {}, {})  # refresh members list
        ok, diags, stderr, dt = _cargo(ws, name, mode)
        total += dt
        flagged = set()
        for dg in diags:
            m = re.search(r"bins/" + re.escape(name) + r"/src/([^/.]+)\.rs", dg.get("file") or "")
            if m and m.group(1) in out:
                out[m.group(1)].append(dg)
                flagged.add(m.group(1))
        if ok:
            break
        if not flagged:
            raise Inconclusive(f"E-rustc {label}: cargo {mode} failed without a diagnostic in a program module: "
                               + (diags[0]["rendered"][:500] if diags else stderr[-500:]))
        live = [m for m in live if m not in flagged]
    else:
        raise Inconclusive(f"E-rustc {label}: not clean after {max_rounds} rounds")
    ctx.cov["rustc_wall_s"] = round(ctx.cov.get("rustc_wall_s", 0) + total, 1)
    return out


def _cargo(ws, pkg, mode, timeout=7200):
    os.makedirs(os.path.dirname(ws.target), exist_ok=True)
    lockf = open(os.path.join(corpus.WORK, ws.label, ".lock"), "w")
    fcntl.flock(lockf, fcntl.LOCK_EX)
    try:
        t0 = time.time()
        cmd = ["cargo", mode, "--offline", "--message-format=json", "-q", "-p", pkg]
        p = subprocess.run(cmd, cwd=ws.root, env=dict(corpus.CARGO_ENV, CARGO_TARGET_DIR=ws.target),
                           stdout=subprocess.PIPE, stderr=subprocess.PIPE, text=True, timeout=timeout)
        diags = []
        for line in p.stdout.splitlines():
            try:
                m = json.loads(line)
            except ValueError:
                continue
            if m.get("reason") != "compiler-message":
                continue
            msg = m["message"]
            if msg.get("level") != "error":
                continue
            spans = [s for s in msg.get("spans", []) if s.get("is_primary")] or msg.get("spans", [])
            fname = ln = None
            if spans:
                s = spans[0]
                while s.get("expansion") and not re.search(r"bins/[^/]+/src/", s.get("file_name", "")):
                    s = s["expansion"]["span"]
                fname, ln = s.get("file_name"), s.get("line_start")
            children = " ".join(c.get("message", "") for c in msg.get("children", []))
            diags.append({"file": fname, "line": ln, "message": msg.get("message"), "notes": children[:600],
                          "rendered": (msg.get("rendered") or "")[:1500]})
        return p.returncode == 0, diags, p.stderr[-3000:], time.time() - t0
    finally:
        fcntl.flock(lockf, fcntl.LOCK_UN)
        lockf.close()
