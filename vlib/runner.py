"""Driver for one runner binary: JSON commands in, JSON observations out."""
import json
import subprocess
import threading


class HarnessError(Exception):
    pass


def _limit_memory():
    # a runner that allocates without bound (seen: a JSON writer looping after an integer underflow in a release build)
    # must die by itself, not take the machine's memory with it
    import resource
    resource.setrlimit(resource.RLIMIT_AS, (8 << 30, 8 << 30))


class Runner:
    def __init__(self, path, record=None):
        self.path = path
        self.p = subprocess.Popen([path], stdin=subprocess.PIPE, stdout=subprocess.PIPE, preexec_fn=_limit_memory,
                                  stderr=subprocess.DEVNULL, text=True, bufsize=1 << 20)
        self.n = 0
        self.record = record
        self.new_types = {}   # program -> instantiations of its (generic) contract type built by `new()` during the calls so far

    def batch(self, cmds):
        """Executes the commands in order; returns the observations in order."""
        if not cmds:
            return []
        out = []
        CH = 256
        for i in range(0, len(cmds), CH):
            chunk = cmds[i:i + CH]
            buf = "".join(json.dumps(c, ensure_ascii=False) + "\n" for c in chunk) + "FLUSH\n"

            def w():
                try:
                    self.p.stdin.write(buf)
                    self.p.stdin.flush()
                except BrokenPipeError:
                    pass
            t = threading.Thread(target=w)
            t.start()
            for c in chunk:
                line = self.p.stdout.readline()
                if not line:
                    t.join()
                    raise HarnessError(f"runner {self.path} died (exit {self.p.poll()}) on {json.dumps(c)[:400]}")
                r = json.loads(line)
                if "harness_error" in r:
                    raise HarnessError(f"{r['harness_error']} on {json.dumps(c)[:400]}")
                out.append(r)
                if r.get("new_types"):
                    self.new_types.setdefault(c.get("prog"), set()).update(r["new_types"])
                if self.record is not None:
                    self.record.write(json.dumps({"cmd": c, "obs": r}, ensure_ascii=False) + "\n")
            t.join()
            self.n += len(chunk)
        return out

    def call(self, cmd):
        return self.batch([cmd])[0]

    def close(self):
        try:
            self.p.stdin.close()
            self.p.wait(timeout=10)
        except Exception:
            self.p.kill()
