"""Rule-breaking edits of valid programs (C18) and the exhaustive small reply tables."""
import copy
import itertools

from . import spec
from . import types as T


def _clone(p):
    q = copy.deepcopy(p)
    return q


def reply_method(prog, name, serves, outcome, sig, explicit=True, data=None):
    m = {"kind": "reply", "name": name, "safe": True, "hid": f"c.reply.{name}", "part": "c",
         "handlers": list(serves) if explicit else None, "serves": list(serves), "reply_on": outcome,
         "payload": sig, "data": data, "ret_err": "own", "args": [],
         "payload_names": ["payload"] if sig == "raw" else [f"p{i + 1}" for i in range(len(sig))]}
    if data in ("typed", "opt"):
        m["data_ti"] = spec.intern_type(prog, T.STRING)
    return m


def reply_host(rng, name):
    """A valid host with a known reply table: `alpha` success+error (typed payload), `beta` always (raw)."""
    p = spec.gen_program(rng, name, n_ifaces=rng.choice([0, 1]))
    u32, st = spec.intern_type(p, T.U32), spec.intern_type(p, T.STRING)
    ms = [reply_method(p, "on_alpha_ok", ["alpha"], "success", [u32, st], data="typed"),
          reply_method(p, "on_alpha_err", ["alpha"], "error", [u32, st]),
          reply_method(p, "beta", ["beta"], "always", "raw", explicit=False)]
    rng.shuffle(ms)
    p["replies"] = True
    p["parts"][0]["handlers"] += ms
    p["reply_table"] = {"names": {"alpha": {"cover": "se", "payload": [u32, st]}, "beta": {"cover": "a", "payload": "raw"}}, "methods": ms}
    return p


def _rm(p, name):
    return next(h for h in p["parts"][0]["handlers"] if h["name"] == name)


def contract_mutants(rng, host):
    """[(rule, mutated program, [keywords])] — target: the contract impl."""
    out = []
    c = lambda q: q["parts"][0]
    q = _clone(host); c(q)["handlers"] = [h for h in c(q)["handlers"] if h["kind"] != "instantiate"]
    out.append(("no-instantiate", q, ["Missing instantiation message"]))
    q = _clone(host); h0 = copy.deepcopy(next(h for h in c(q)["handlers"] if h["kind"] == "instantiate")); h0["name"] += "_again"; h0["hid"] += "_again"
    c(q)["handlers"].insert(rng.randrange(len(c(q)["handlers"]) + 1), h0)
    out.append(("two-instantiate", q, ["More than one instantiation or migration"]))
    q = _clone(host)
    mig = [h for h in c(q)["handlers"] if h["kind"] == "migrate"]
    if not mig:
        inst = next(h for h in c(q)["handlers"] if h["kind"] == "instantiate")
        m1 = copy.deepcopy(inst); m1["kind"] = "migrate"; m1["name"] = "migrate_one"; m1["hid"] = "c.migrate.migrate_one"
        c(q)["handlers"].append(m1); mig = [m1]
    m2 = copy.deepcopy(mig[0]); m2["name"] += "_again"; m2["hid"] += "_again"
    c(q)["handlers"].append(m2)
    out.append(("two-migrate", q, ["More than one instantiation or migration"]))
    q = _clone(host); q["new_mode"] = "none"
    out.append(("no-new", q, ["Missing `new` method"]))
    q = _clone(host); q["new_mode"] = "params"
    out.append(("new-with-params", q, ["Parameters not allowed in `new`"]))
    for mode in ("params_wild", "params_tuple", "params_self", "params_mut"):
        q = _clone(host); q["new_mode"] = mode
        out.append((f"new-with-{mode.replace('_', '-')}", q, ["Parameters not allowed in `new`"]))
    # unknown attribute arguments
    hs = [h for h in c(host)["handlers"] if h["kind"] in ("exec", "query", "sudo")]
    if hs:
        hn = rng.choice(hs)["name"]
        q = _clone(host); _rm(q, hn)["msg_attr_text"] = "#[sv::msg(execz)]"
        out.append(("msg-unknown-kind", q, ["Invalid message type"]))
        q = _clone(host); k = _rm(q, hn)["kind"]; _rm(q, hn)["msg_attr_text"] = f"#[sv::msg({k}, respz=u32)]"
        out.append(("msg-unknown-arg", q, ["Invalid argument type"]))
        q = _clone(host); _rm(q, hn)["ctx_attr"] = "#[sv::payload(raw)] "
        out.append(("attr-on-ctx", q, ["Invalid usage of Sylvia attribute"]))
        q = _clone(host); _rm(q, hn)["self_text"] = "#[sv::data] &self"
        out.append(("attr-on-self", q, ["Invalid usage of Sylvia attribute"]))
    # `sv::attr` forwards to an enum variant; the struct messages have none -- wherever the attribute is written
    for kind in ("instantiate", "migrate"):
        for above in (0, 1):
            q = _clone(host)
            hk = [h for h in c(q)["handlers"] if h["kind"] == kind]
            if not hk:
                continue
            hk[0]["sv_attrs"] = ["doc = \"forwarded\""]
            hk[0]["sv_attrs_above"] = above
            out.append((f"attr-on-{kind}-{'above' if above else 'below'}", q, [f"`sv::attr` is not supported for `{kind}`"]))
    q = _clone(host); c(q)["raw_attrs"] = ["#[sv::msg_attr(bogus, derive(Default))]"]
    out.append(("msg_attr-unknown-kind", q, ["Invalid message type"]))
    q = _clone(host); c(q)["raw_attrs"] = ["#[sv::msg_attr(exec)]"]
    out.append(("msg_attr-malformed", q, ["Expected attribute of the form"]))
    q = _clone(host); c(q)["raw_attrs"] = ["#[sv::features(bogus)]"]
    out.append(("features-unknown", q, ["Invalid feature"]))
    if not (host["custom"]["msg"] or host["custom"]["query"]):
        q = _clone(host); c(q)["raw_attrs"] = ["#[sv::custom(mesg=Empty)]"]
        out.append(("custom-unknown-arg", q, ["Invalid custom type"]))
    q = _clone(host); c(q)["raw_attrs"] = ["#[sv::override_entry_point(bogus=some_fn(Empty))]"]
    out.append(("override-unknown-kind", q, ["Invalid entry point"]))
    if len(host["parts"]) > 1:
        q = _clone(host); pt = q["parts"][1]
        c(q)["raw_attrs"] = [f"#[sv::messages({pt['module']}: custom(wrong))]"]
        q["parts"] = q["parts"][:1] + q["parts"][2:] if False else q["parts"]
        pt["skip_messages_attr"] = True
        out.append(("messages-unknown-custom", q, ["Invalid custom attribute"]))
        q = _clone(host); pt = q["parts"][1]
        c(q)["raw_attrs"] = [f"#[sv::messages({pt['module']} as {pt['trait']}: custom(msg) trailing)]"]
        pt["skip_messages_attr"] = True
        out.append(("messages-trailing-tokens", q, ["Unexpected tokens inside `sv::messages`"]))
    return out


def reply_mutants(rng, host):
    out = []
    c = lambda q: q["parts"][0]
    u32 = spec.intern_type(host, T.U32)
    u64 = spec.intern_type(host, T.U64)
    st = spec.intern_type(host, T.STRING)

    def add(q, m):
        hs = c(q)["handlers"]
        hs.insert(rng.randrange(len(hs) + 1), m)
        return q
    q = add(_clone(host), reply_method(host, "on_dup", ["alpha"], "success", [u32, st]))
    out.append(("reply-duplicate-success", q, ["Duplicated reply handler"]))
    q = add(_clone(host), reply_method(host, "on_dup", ["alpha", "gamma"], "error", [u32, st]))
    out.append(("reply-duplicate-error-shared", q, ["Duplicated reply handler"]))
    q = add(_clone(host), reply_method(host, "on_alw", ["alpha"], "always", [u32, st]))
    out.append(("reply-always-with-other", q, ["Duplicated reply handler"]))
    q = add(_clone(host), reply_method(host, "on_beta_ok", ["beta"], "success", "raw"))
    out.append(("reply-other-with-always", q, ["Duplicated reply handler"]))
    q = _clone(host); m = _rm(q, "on_alpha_err"); m["payload"] = [u32]; m["payload_names"] = ["p1"]
    out.append(("reply-payload-count", q, ["Mismatched quantity of method parameters"]))
    q = _clone(host); m = _rm(q, "on_alpha_err"); m["payload"] = [u32, u64]
    out.append(("reply-payload-type", q, ["Mismatched parameter in reply handlers"]))
    vu32, vst = spec.intern_type(host, T.vec(T.U32)), spec.intern_type(host, T.vec(T.STRING))
    ou32, ovu32 = spec.intern_type(host, T.option(T.U32)), spec.intern_type(host, T.option(T.vec(T.U32)))
    for tag, (ta, tb) in (("vec", (vu32, vst)), ("option", (ou32, ovu32))):
        q = _clone(host)
        q["types"] = host["types"]
        _rm(q, "on_alpha_ok")["payload"] = [ta, st]
        _rm(q, "on_alpha_err")["payload"] = [tb, st]
        out.append((f"reply-payload-type-generic-arg-{tag}", q, ["Mismatched parameter in reply handlers"]))
    # one handler name, one wire format of its payload: only one of its two methods takes the `Binary` raw
    bn = spec.intern_type(host, T.BINARY)
    for marked in ("on_alpha_ok", "on_alpha_err"):
        q = _clone(host)
        q["types"] = host["types"]
        for mn in ("on_alpha_ok", "on_alpha_err"):
            m = _rm(q, mn)
            m["payload"] = [bn]
            m["payload_names"] = ["payload"]
        _rm(q, marked)["raw_mark"] = True
        if rng.random() < 0.5:
            c(q)["handlers"].reverse()
        out.append((f"reply-mixed-raw-{marked}", q, ["Mismatched `sv::payload(raw)` usage"]))
    q = add(_clone(host), dict(reply_method(host, "on_gamma", ["gamma"], "error", "raw"), params_text=["error: String"]))
    out.append(("reply-missing-payload-error", q, ["Missing payload parameter"]))
    q = add(_clone(host), dict(reply_method(host, "on_gamma", ["gamma"], "success", "raw"), params_text=[]))
    out.append(("reply-missing-payload-success", q, ["Missing payload parameter"]))
    q = add(_clone(host), dict(reply_method(host, "on_gamma", ["gamma"], "error", "raw"),
                               params_text=["error: String", "#[sv::payload(raw)] payload: Binary", "extra: u32"]))
    out.append(("reply-redundant-after-raw", q, ["Redundant payload parameter"]))
    q = add(_clone(host), dict(reply_method(host, "on_gamma", ["gamma"], "success", "raw"),
                               params_text=["#[sv::data(raw)] data: Binary", "extra: u32", "#[sv::payload(raw)] payload: Binary"]))
    out.append(("reply-redundant-before-raw", q, ["Redundant payload parameter"]))
    q = add(_clone(host), dict(reply_method(host, "on_gamma", ["gamma"], "success", "raw"),
                               params_text=["p1: u32", "#[sv::data] data: String"]))
    out.append(("reply-data-not-first", q, ["Wrong usage of `#[sv::data]`"]))
    q = add(_clone(host), dict(reply_method(host, "on_gamma", ["gamma"], "error", "raw"),
                               params_text=["#[sv::data] error: String", "#[sv::payload(raw)] payload: Binary"]))
    out.append(("reply-data-on-error", q, ["Wrong usage of `#[sv::data]`"]))
    q = add(_clone(host), dict(reply_method(host, "on_gamma", ["gamma"], "always", "raw"),
                               params_text=["#[sv::data(raw)] result: SubMsgResult", "#[sv::payload(raw)] payload: Binary"]))
    out.append(("reply-data-on-always", q, ["Wrong usage of `#[sv::data]`"]))
    q = _clone(host); _rm(q, "on_alpha_ok")["data_attr_text"] = "#[sv::data(instantiate, raw)]"
    out.append(("reply-data-instantiate-raw", q, ["cannot be used in pair with `raw`"]))
    for tag, txt in (("raw-first", "raw, instantiate"), ("opt-between", "raw, opt, instantiate"), ("opt-first", "opt, instantiate, raw"), ("opt-last", "raw, instantiate, opt")):
        q = _clone(host); _rm(q, "on_alpha_ok")["data_attr_text"] = f"#[sv::data({txt})]"
        out.append((f"reply-data-instantiate-raw-{tag}", q, ["cannot be used in pair with `raw`"]))
    q = _clone(host); _rm(q, "on_alpha_ok")["data_attr_text"] = "#[sv::data(bogus)]"
    out.append(("reply-data-unknown-arg", q, ["Invalid data parameter"]))
    q = _clone(host); _rm(q, "beta")["payload_attr_text"] = "#[sv::payload(cooked)]"
    out.append(("reply-payload-unknown-arg", q, ["Invalid payload parameter"]))
    q = _clone(host); _rm(q, "beta")["payload_attr_text"] = "#[sv::payload]"
    out.append(("reply-payload-no-arg", q, ["Missing parameters for `sv::payload`"]))
    # the name-value form is not a way to write a marker either
    q = _clone(host); _rm(q, "beta")["payload_attr_text"] = "#[sv::payload = \"raw\"]"
    out.append(("reply-payload-name-value", q, ["Missing parameters for `sv::payload`"]))
    q = _clone(host); _rm(q, "on_alpha_ok")["data_attr_text"] = "#[sv::data = \"raw\"]"
    out.append(("reply-data-name-value", q, ["Invalid usage of `sv::data`"]))
    q = _clone(host); _rm(q, "beta")["msg_attr_text"] = "#[sv::msg(reply, reply_on=never)]"
    out.append(("reply-unknown-reply_on", q, ["Invalid argument type"]))
    return out


def iface_mutants(rng, host):
    """[(rule, mutated program, part id, [keywords])] — target: one interface trait."""
    out = []
    if len(host["parts"]) < 2:
        return out
    pid = rng.choice([p["id"] for p in host["parts"][1:]])
    part = lambda q: spec.part_by_id(q, pid)
    base = part(host)
    proto = {"kind": "exec", "name": "zz_extra", "safe": True, "args": [], "ret_err": "own", "hid": f"{pid}.exec.zz_extra", "part": pid}
    q = _clone(host); part(q)["handlers"].append(dict(proto, msg_attr_text="#[sv::msg(instantiate)]", kind="exec"))
    out.append(("iface-instantiate", q, pid, ["`instantiate` is not supported in interfaces"]))
    q = _clone(host); part(q)["handlers"].append(dict(proto, msg_attr_text="#[sv::msg(migrate)]", kind="sudo"))
    out.append(("iface-migrate", q, pid, ["`migrate` is not supported in interfaces"]))
    q = _clone(host); part(q)["trait_generics"] = "<T>"
    out.append(("iface-generics", q, pid, ["Generics on traits are not supported"]))
    # parameters that are not type parameters are generics too (a defaulted const parameter is otherwise accepted by rustc as well)
    for tag, txt in (("lifetime", "<'a>"), ("const", "<const N: usize>"), ("const-default", "<const MAX: u32 = 10>"), ("type-default", "<T = u32>")):
        q = _clone(host); part(q)["trait_generics"] = txt
        out.append((f"iface-generics-{tag}", q, pid, ["Generics on traits are not supported"]))
    if all(h["ret_err"] == "std" for h in base["handlers"]) or True:
        q = _clone(host); part(q)["no_error_type"] = True
        for h in part(q)["handlers"]:
            h["ret_err"] = "std"
        out.append(("iface-no-error", q, pid, ["Missing `Error` type"]))
    if base.get("custom_mode") != "fixed":  # a `fixed` interface already carries one sv::custom: a second one is another rule
        q = _clone(host); part(q)["raw_attrs"] = ["#[sv::custom(mesg=Empty)]"]
        out.append(("iface-custom-unknown-arg", q, pid, ["Invalid custom type"]))
    q = _clone(host); part(q)["raw_attrs"] = ["#[sv::msg_attr(instantiatez, derive(Default))]"]
    out.append(("iface-msg_attr-unknown-kind", q, pid, ["Invalid message type"]))
    hs = base["handlers"]
    if hs:
        hn = rng.choice(hs)["name"]
        q = _clone(host); next(h for h in part(q)["handlers"] if h["name"] == hn)["ctx_attr"] = "#[sv::data] "
        out.append(("iface-attr-on-ctx", q, pid, ["Invalid usage of Sylvia attribute"]))
    return out


# ---------------------------------------------------------------- exhaustive small reply tables

# payload signatures of the small tables: different arity, different type, and types that differ only in a generic argument
SIGS = [0, 1, 2, 3]
SIG_TEXT = {0: "p1: u32, p2: String", 1: "p1: u64", 2: "p1: Vec<u32>", 3: "p1: Vec<String>"}


def small_tables(max_methods=3):
    """All ordered tables of <= max_methods methods over names {a, b}: each method serves [a], [b] or [a,b],
    has outcome s/e/a and one of two payload signatures."""
    kinds = list(itertools.product([("a",), ("b",), ("a", "b")], ["success", "error", "always"], SIGS))
    for n in range(1, max_methods + 1):
        for combo in itertools.product(kinds, repeat=n):
            yield combo


def table_model(combo):
    """accept iff per name: no outcome twice, always excludes everything else, one payload signature."""
    by_name = {}
    for serves, outcome, sig in combo:
        for nm in serves:
            by_name.setdefault(nm, []).append((outcome, sig))
    for nm, ms in by_name.items():
        outs = [o for o, _ in ms]
        if len(outs) != len(set(outs)):
            return False
        if "always" in outs and len(outs) > 1:
            return False
        if len({s for _, s in ms}) > 1:
            return False
    return True


def table_program(combo, idx):
    """A minimal contract carrying the table (text of the impl item; never compiled in-process)."""
    lines = ["#[sv::features(replies)]", "impl Contract {", "    pub fn new() -> Self { Contract }",
             "    #[sv::msg(instantiate)]", "    fn instantiate(&self, ctx: InstantiateCtx) -> StdResult<Response> { todo!() }"]
    for i, (serves, outcome, sig) in enumerate(combo):
        first = {"success": "", "error": "error: String, ", "always": "result: SubMsgResult, "}[outcome]
        pay = SIG_TEXT[sig]
        lines.append(f"    #[sv::msg(reply, handlers=[{', '.join(serves)}], reply_on={outcome})]")
        lines.append(f"    fn m{i}(&self, ctx: ReplyCtx, {first}{pay}) -> StdResult<Response> {{ todo!() }}")
    lines.append("}")
    return "\n".join(lines)
