HOOK_COMMITS = []
NOT_APPLICABLE = {}
RUN_NOTE = ("Trusts: rustc/cargo, cosmwasm-std mock environment, serde_json_wasm; the generator's grammar bounds the programs seen "
            "(DESIGN.md section 9); echo handlers stand in for user handler bodies.")
CHECKS = {
 "C01": {"engine": "E-run", "ref": "DESIGN.md section 2 (C01)", "technique": "runtime monitor: reference-model oracle over generated programs",
         "level": "Every generated message type of a seeded corpus of contracts/interfaces is built, encoded, decoded and probed with candidate names; each observation is compared with the document predicted from the method signature alone. Held = no disagreement on the executions observed.",
         "note": RUN_NOTE},
 "C02": {"engine": "E-run", "ref": "DESIGN.md section 2 (C02)", "technique": "runtime monitor: event-log oracle (echo handlers, probes, planned outcomes)",
         "level": "Every handler of every kind is dispatched (part message and contract wrapper) with drawn arguments, env, info, world probes and planned outcome; the event log must hold exactly the predicted invocation and the caller must get the planned outcome.",
         "note": RUN_NOTE},
 "C03": {"engine": "E-run", "ref": "DESIGN.md section 2 (C03)", "technique": "runtime monitor: differential oracle wrapper vs parts over hostile documents",
         "level": "For every kind the contract-level message is fed well-formed and hostile documents; acceptance, decoded value, re-encoding, error text and the handler reached are compared with what the parts themselves do.",
         "note": RUN_NOTE},
}
