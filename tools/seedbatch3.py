#!/usr/bin/env python3
"""Round-3 layout: <out>/change<i>/{patch.diff, demo/, RUN.txt (copy: / cmd: / needs:), README.md}.
   tools/seedbatch3.py /tmp/seed3/out_C01 /tmp/seed3/C01 C01 gh --props C01,C03 [--props1 ..] [--props2 ..]"""
import argparse, os, re, subprocess
ap = argparse.ArgumentParser()
ap.add_argument("out"); ap.add_argument("worktree"); ap.add_argument("prop"); ap.add_argument("letters")
ap.add_argument("--props", required=True)
for i in (1, 2, 3):
    ap.add_argument(f"--props{i}", default=None)
a = ap.parse_args()
here = os.path.dirname(os.path.abspath(__file__))
for i, letter in zip((1, 2, 3), a.letters):
    seed = os.path.join(a.out, f"change{i}")
    if not os.path.isfile(os.path.join(seed, "patch.diff")):
        print(f"-- {a.prop}{letter}: no {seed}/patch.diff"); continue
    copies, cmd, needs = [], None, ""
    for l in open(os.path.join(seed, "RUN.txt")).read().splitlines():
        l = l.strip()
        if l.lower().startswith("copy:"):
            for cl in l[5:].split(";"):
                m = re.match(r"\s*(\S+)\s*->\s*(\S+)\s*$", cl.strip())
                if m:
                    src = m.group(1)
                    if not src.startswith("demo/"):
                        src = "demo/" + src
                    copies.append(f"{src}:{m.group(2)}")
        elif l.lower().startswith("cmd:"):
            cmd = l[4:].strip().replace(a.worktree, "/tmp/sv_eval/repo")
        elif l.lower().startswith("needs:"):
            needs = l[6:].strip().replace("`", "'")
    args = [os.path.join(here, "seedtest.py"), "--id", f"{a.prop}{letter}", "--seed", seed, "--demo-cmd", cmd, "--props", getattr(a, f"props{i}") or a.props,
            "--breaks", a.prop, "--needs", needs]
    for c in copies:
        args += ["--demo-copy", c]
    print(f"== {a.prop}{letter}: {cmd[:120]}  copies={copies}\n   needs: {needs[:200]}", flush=True)
    p = subprocess.run(args, stdout=subprocess.PIPE, stderr=subprocess.STDOUT, text=True)
    for l in p.stdout.splitlines():
        if re.match(r"^(demo|suite|C\d+ |    |Traceback|\w*Error)", l) and "conda" not in l:
            print(l[:260])
