#!/usr/bin/env python3
"""Runs tools/seedtest.py for every SEED/changeN of a round-2 seeder worktree (standardised demo/RUN.txt).
   tools/seedbatch.py /tmp/seed2/C01 C01 cde --props C01,C03 [--needs1 ".." --needs2 ".." --needs3 ".."]"""
import argparse, os, re, subprocess, sys
ap = argparse.ArgumentParser()
ap.add_argument("worktree"); ap.add_argument("prop"); ap.add_argument("letters")
ap.add_argument("--props", required=True)
for i in (1, 2, 3):
    ap.add_argument(f"--needs{i}", default="")
    ap.add_argument(f"--props{i}", default=None)
a = ap.parse_args()
here = os.path.dirname(os.path.abspath(__file__))
for i, letter in zip((1, 2, 3), a.letters):
    seed = os.path.join(a.worktree, "SEED", f"change{i}")
    if not os.path.isdir(seed):
        print(f"-- {a.prop}{letter}: no {seed}"); continue
    run = open(os.path.join(seed, "demo", "RUN.txt")).read().strip().splitlines()
    copies = []
    if run[0].strip().lower() != "none":
        for cl in run[0].split(";"):
            m = re.match(r"\s*copy\s+(\S+)\s*->\s*(\S+)\s*$", cl.strip())
            if m:
                src = m.group(1)
                if not src.startswith("demo/"):
                    src = "demo/" + src
                copies.append(f"{src}:{m.group(2)}")
    cmd = run[1].strip().replace(a.worktree, "/tmp/sv_eval/repo")
    args = [os.path.join(here, "seedtest.py"), "--id", f"{a.prop}{letter}", "--seed", seed, "--demo-cmd", cmd, "--props", getattr(a, f"props{i}") or a.props,
            "--breaks", a.prop, "--needs", getattr(a, f"needs{i}")]
    for c in copies:
        args += ["--demo-copy", c]
    print(f"== {a.prop}{letter}: {cmd[:120]}  copies={copies}", flush=True)
    p = subprocess.run(args, stdout=subprocess.PIPE, stderr=subprocess.STDOUT, text=True)
    for l in p.stdout.splitlines():
        if re.match(r"^(demo|suite|C\d+ |    )", l) and "conda" not in l:
            print(l[:260])
