#!/usr/bin/env python3
"""Re-runs, for the given seed ids (default: all), the checks that reported the seed before, against the patched
scratch worktree, and prints the ones that no longer report it.  tools/seedregress.py [ids..]"""
import glob, json, os, subprocess, sys
HERE = os.path.dirname(os.path.dirname(os.path.abspath(__file__)))
ids = sys.argv[1:] or sorted(os.path.basename(os.path.dirname(p)) for p in glob.glob(os.path.join(HERE, "seeded", "*", "meta.json")))
lost = []
for i in ids:
    mp = os.path.join(HERE, "seeded", i, "meta.json")
    m = json.load(open(mp))
    props = m.get("caught_by") or []
    if not props or m.get("superseded_by_fix"):
        print(i, "skipped (not reported before / superseded)"); continue
    own = m["breaks_property"]
    props = ([own] if own in props else []) + [p for p in props if p != own]
    subprocess.run([os.path.join(HERE, "tools", "seedtest.py"), "--skip-validate", "--demo-cmd", m.get("demo_cmd", "x"), "--id", i,
                    "--seed", os.path.join(HERE, "seeded", i), "--props", ",".join(props[:2])], stdout=subprocess.PIPE, stderr=subprocess.STDOUT, text=True)
    m2 = json.load(open(mp))
    now = [p for p in props[:2] if m2["checks"][p]["verdict"] == "VIOLATION"]
    print(i, "before", props[:2], "now", now, flush=True)
    if set(now) != set(props[:2]):
        lost.append((i, sorted(set(props[:2]) - set(now))))
print("LOST:", lost)
