#!/usr/bin/env python3
"""Writes seeded/INDEX.md from seeded/*/meta.json."""
import glob, json, os
HERE = os.path.dirname(os.path.dirname(os.path.abspath(__file__)))
rows = []
for mp in sorted(glob.glob(os.path.join(HERE, "seeded", "*", "meta.json"))):
    m = json.load(open(mp))
    checks = m.get("checks", {})
    caught = ", ".join(m.get("caught_by", [])) or "—"
    if m.get("superseded_by_fix"):
        caught = ", ".join(m.get("caught_by_at_df7bae5", [])) + f" (before fix {m['superseded_by_fix']}; its trigger programs are invalid since)"
    rows.append((m["id"], m.get("breaks_property"), m.get("valid_seed"), caught,
                 ", ".join(p for p, v in checks.items() if v["verdict"] != "VIOLATION") or "—", (m.get("needs_to_manifest") or "").replace("\n", " ")))
with open(os.path.join(HERE, "seeded", "INDEX.md"), "w") as f:
    f.write("# Seeded breaking changes\n\nEach directory holds `patch.diff` (apply with `git -C <worktree> apply`), the seeder's demonstration and `meta.json` "
            "(what was run).  Validation = demo passes on the clean tree, baseline suite passes with the change, demo fails with the change.  "
            "Checks were run with `tools/seedtest.py` (VERIF_REPO = patched scratch worktree, quick tier unless noted).\n\n")
    f.write("| id | breaks | validated | reported by | run but silent | needs to manifest |\n|---|---|---|---|---|---|\n")
    for r in rows:
        f.write("| " + " | ".join(str(x) for x in r) + " |\n")
print(f"{len(rows)} seeds indexed")
