#!/usr/bin/env python3
"""Regenerates /verif/MANIFEST.json from the table below (kept next to the checks so that the
manifest is always valid and in step with what is implemented)."""
import json, os, sys
HERE = os.path.dirname(os.path.dirname(os.path.abspath(__file__)))
sys.path.insert(0, HERE)
from tools.manifest_table import CHECKS, NOT_APPLICABLE, HOOK_COMMITS

props = [json.loads(l)["id"] for l in open(os.path.join(HERE, "properties.jsonl"))]
checks = []
for pid in props:
    if pid not in CHECKS:
        continue
    c = CHECKS[pid]
    checks.append({
        "property_id": pid,
        "quick_cmd": f"./check {pid} --tier quick",
        "thorough_cmd": f"./check {pid} --tier thorough",
        "evidence_file": f"/verif/evidence/{pid}.json",
        "replay_cmd_template": f"./check {pid} --replay {{path}}",
        "engine": c["engine"],
        "level_claimed": {"category": "exploration", "text": c["level"], "design_ref": c["ref"]},
        "level_note": c["note"],
        "technique": c["technique"],
    })
na = [{"property_id": p, "reason": NOT_APPLICABLE.get(p, "check not built yet in this round (no claim made)")}
      for p in props if p not in CHECKS]
m = {
    "version": 1,
    "setup_cmd": "./setup.sh",
    "hooks": {
        "guard": "cargo feature `verif-hook` of sylvia-derive (off by default)",
        "enable": "cargo test -p sylvia-derive --features verif-hook,mt,cosmwasm_1_2 --lib verif_ with SYLVIA_VERIF_HARNESS=/verif/inproc/harness.rs (only the in-process expansion engine needs it; the runner binaries use /repo as a plain path dependency)",
        "baseline_off_cmd": "cd /repo && cargo test --workspace --no-fail-fast --offline",
        "source_commits": HOOK_COMMITS,
        "add_only": True,
    },
    "engines": [
        {"name": "E-run", "path": "/verif/vlib + /verif/svmon", "serves_properties": [p for p in props if p in CHECKS and "E-run" in CHECKS[p]["engine"]],
         "kind_free_text": "generated contracts with echo handlers compiled against /repo into runner binaries; python monitors compare every observed execution (events, results, storage) with a reference model"},
        {"name": "E-rustc", "path": "/verif/vlib/rustc_engine.py", "serves_properties": [p for p in props if p in CHECKS and "E-rustc" in CHECKS[p]["engine"]],
         "kind_free_text": "cargo check --message-format=json over generated accept / reject programs: the compiler verdict and diagnostics are the observation"},
        {"name": "E-inproc", "path": "/verif/inproc/harness.rs", "serves_properties": [p for p in props if p in CHECKS and "E-inproc" in CHECKS[p]["engine"]],
         "kind_free_text": "the macro implementations run in-process on generated and real sources behind the verif-hook feature; a syn-based extractor reports a structural view of every expansion"},
    ],
    "checks": checks,
    "notes": "All checks are runtime monitors over executions of the real code (macro expansions, rustc verdicts, generated code and library running in runner binaries). Exit 0 held / 1 VIOLATION / 2 INCONCLUSIVE (never a VIOLATION line). Known findings: /verif/known_findings.json.",
    "not_applicable": na,
}
json.dump(m, open(os.path.join(HERE, "MANIFEST.json"), "w"), indent=1)
print("wrote MANIFEST.json with", len(checks), "checks;", len(na), "not claimed")
