#!/usr/bin/env python3
"""Validate one seeded change and run checks against it, in a scratch worktree (never /repo itself).

  tools/seedtest.py --id C01a --seed /tmp/seed/C01/SEED/change1 --demo-copy demo/x.rs:sylvia/tests/x.rs \
        --demo-cmd "cargo test -p sylvia --test x --offline" --props C01,C03 [--keep]

Steps: (1) demo on the clean tree must pass; (2) with the patch the baseline suite must pass and (3) the demo must
fail; (4) the named checks run with VERIF_REPO pointing at the patched worktree (own work and evidence dirs).
Writes /verif/seeded/<id>/{patch.diff,demo/,meta.json}.
"""
import argparse, json, os, shutil, subprocess, sys, time

BASE = os.environ.get("SV_EVAL_DIR", "/tmp/sv_eval")   # a second directory lets a regression run next to an evaluation
W = BASE + "/repo"
WORK = BASE + "/work"
EVD = BASE + "/evidence"
VERIF = os.path.dirname(os.path.dirname(os.path.abspath(__file__)))


def sh(cmd, cwd=None, env=None, timeout=7200):
    p = subprocess.run(cmd, shell=True, cwd=cwd, env=env, stdout=subprocess.PIPE, stderr=subprocess.STDOUT, text=True, timeout=timeout)
    return p.returncode, p.stdout


def reset():
    if not os.path.isdir(W):
        os.makedirs(os.path.dirname(W), exist_ok=True)
        rc, out = sh(f"git -C /repo worktree add --detach {W} HEAD")
        assert rc == 0, out
    sh("git checkout -q --detach $(git -C /repo rev-parse HEAD) && git checkout -- . && git clean -fdq -e target", cwd=W)


def suite():
    rc, out = sh("cargo test --workspace --no-fail-fast --offline 2>&1 | grep -E '^test result|FAILED|panicked' ", cwd=W)
    passed = failed = 0
    for l in out.splitlines():
        if l.startswith("test result"):
            t = l.split()
            passed += int(t[3]); failed += int(t[5])
    return passed, failed, out[-1500:]


def main():
    ap = argparse.ArgumentParser()
    ap.add_argument("--id", required=True)
    ap.add_argument("--seed", required=True)
    ap.add_argument("--patch", default="patch.diff")
    ap.add_argument("--demo-copy", action="append", default=[])
    ap.add_argument("--demo-cmd", required=True)
    ap.add_argument("--props", required=True)
    ap.add_argument("--breaks", default=None)
    ap.add_argument("--needs", default="")
    ap.add_argument("--tier", default="quick")
    ap.add_argument("--skip-validate", action="store_true")
    a = ap.parse_args()
    env = dict(os.environ, CARGO_NET_OFFLINE="true")
    meta = {"id": a.id, "breaks_property": a.breaks or a.props.split(",")[0], "needs_to_manifest": a.needs, "ran": []}
    patch = os.path.join(a.seed, a.patch)

    def copy_demo():
        for spec in a.demo_copy:
            src, dst = spec.split(":")
            d = os.path.join(W, dst)
            os.makedirs(os.path.dirname(d) or W, exist_ok=True)
            if os.path.isdir(os.path.join(a.seed, src)):
                shutil.copytree(os.path.join(a.seed, src), d, dirs_exist_ok=True)
            else:
                shutil.copy(os.path.join(a.seed, src), d)
    if not a.skip_validate:
        reset(); copy_demo()
        rc0, out0 = sh(a.demo_cmd + " 2>&1 | tail -15", cwd=W, env=env)
        ok_clean = "test result: ok" in out0 and "FAILED" not in out0
        meta["ran"].append({"what": "demo on unmodified tree", "cmd": a.demo_cmd, "passes": ok_clean, "tail": out0[-600:]})
        print("demo on clean tree passes:", ok_clean)
    reset()
    rc, out = sh(f"git apply {patch}", cwd=W)
    assert rc == 0, "patch does not apply: " + out
    if not a.skip_validate:
        p_, f_, tail = suite()
        meta["ran"].append({"what": "baseline suite with the change", "cmd": "cargo test --workspace --no-fail-fast --offline", "passed": p_, "failed": f_})
        print(f"suite with change: {p_} passed, {f_} failed")
        copy_demo()
        rc1, out1 = sh(a.demo_cmd + " 2>&1 | tail -25", cwd=W, env=env)
        fails = ("FAILED" in out1) or ("error" in out1 and "test result: ok" not in out1)
        meta["ran"].append({"what": "demo with the change", "cmd": a.demo_cmd, "fails": fails, "tail": out1[-800:]})
        print("demo with change fails:", fails)
        meta["valid_seed"] = bool(ok_clean and f_ == 0 and fails)
        # remove the demo again so that checks see only the source change
        # (only the copied files: the patch itself may add new source files)
        for spec in a.demo_copy:
            tgt = os.path.join(W, spec.split(":")[1])
            if os.path.isdir(tgt):
                shutil.rmtree(tgt, ignore_errors=True)
            else:
                try:
                    os.remove(tgt)
                except FileNotFoundError:
                    pass
    env2 = dict(env, VERIF_REPO=W, VERIF_WORK=WORK, VERIF_EVIDENCE_DIR=EVD)
    verdicts = {}
    for prop in a.props.split(","):
        t0 = time.time()
        rc, out = sh(f"./check {prop} --tier {a.tier} 2>&1 | grep -E '^(OK|VIOLATION|INCONCLUSIVE|KNOWN|  violation)' | cut -c1-400", cwd=VERIF, env=env2)
        v = "VIOLATION" if "VIOLATION property=" in out else ("INCONCLUSIVE" if "INCONCLUSIVE" in out else ("OK" if "OK property=" in out else "?"))
        verdicts[prop] = {"verdict": v, "wall_s": round(time.time() - t0, 1), "first_lines": out.splitlines()[:6]}
        print(prop, v, f"{time.time()-t0:.0f}s")
        for l in out.splitlines()[:4]:
            print("   ", l[:300])
    meta["checks"] = verdicts
    meta["caught_by"] = sorted(p for p, v in verdicts.items() if v["verdict"] == "VIOLATION")
    dst = os.path.join(VERIF, "seeded", a.id)
    os.makedirs(dst, exist_ok=True)
    if os.path.abspath(patch) != os.path.abspath(os.path.join(dst, "patch.diff")):
        shutil.copy(patch, os.path.join(dst, "patch.diff"))
    if os.path.isdir(os.path.join(a.seed, "demo")) and os.path.abspath(a.seed) != os.path.abspath(dst):
        shutil.copytree(os.path.join(a.seed, "demo"), os.path.join(dst, "demo"), dirs_exist_ok=True)
    if os.path.exists(os.path.join(a.seed, "README.md")) and os.path.abspath(a.seed) != os.path.abspath(dst):
        shutil.copy(os.path.join(a.seed, "README.md"), os.path.join(dst, "SEEDER_README.md"))
    old = {}
    mp = os.path.join(dst, "meta.json")
    if os.path.exists(mp):
        old = json.load(open(mp))
        if a.skip_validate:
            for k in ("ran", "valid_seed", "needs_to_manifest", "demo_copy", "demo_cmd", "breaks_property", "note", "superseded_by_fix", "caught_by_at_df7bae5"):
                if k in old:
                    meta[k] = old[k]
            oc = old.get("checks", {})
            oc.update(meta["checks"])
            meta["checks"] = oc
            meta["caught_by"] = sorted(p for p, v in oc.items() if v["verdict"] == "VIOLATION")
    meta.setdefault("demo_copy", a.demo_copy)
    meta.setdefault("demo_cmd", a.demo_cmd)
    json.dump(meta, open(mp, "w"), indent=1)
    reset()


if __name__ == "__main__":
    main()
