#!/usr/bin/env python3
import json, sys, glob, os
import jsonschema
m=json.load(open('/verif/MANIFEST.json')); s=json.load(open('/root/.vp/MANIFEST.schema.json'))
jsonschema.validate(m,s); print("manifest valid:", len(m["checks"]), "checks")
es=json.load(open('/root/.vp/EVIDENCE.schema.json'))
for c in m["checks"]:
    f=c["evidence_file"]
    if os.path.exists(f):
        jsonschema.validate(json.load(open(f)), es); print(c["property_id"],"evidence valid")
    else:
        print(c["property_id"],"evidence MISSING")
