//! svmon — support library linked into every generated runner binary.
//!
//! Observation boundary of the monitors: *echo handlers* (`echo_mut`, `echo_query`)
//! append an event to a thread-local log before doing anything else, read probes that
//! identify the storage / api / querier instance they were handed, and return whatever
//! the driver planned.  The driver side (`ops`, `server`) executes commands that arrive
//! as JSON lines on stdin and answers with JSON lines on stdout; all oracles live in the
//! python orchestrator, which sees (result, events, storage-after) for every execution.

pub mod errs;
pub mod libops;
pub mod mt;
pub mod ops;
pub mod server;

pub use cosmwasm_schema;
pub use cosmwasm_std;
pub use schemars;
pub use serde;
pub use serde_json;

use cosmwasm_std::{
    from_json, CanonicalAddr, CustomQuery, Deps, DepsMut, Env, Event, MessageInfo, MsgResponse,
    Response, StdError, Storage,
};
use serde::de::DeserializeOwned;
use serde_json::{json, Value};
use std::cell::RefCell;

pub use errs::{DescribeErr, ErrParam, IfaceErr, LookupErr, MonErr, PlanErr};

/// Chain-custom message used by programs that declare `sv::custom(msg=..)`.
#[cosmwasm_schema::cw_serde]
pub enum MyMsg {
    Ping { n: u32 },
}
impl cosmwasm_std::CustomMsg for MyMsg {}

/// Chain-custom query used by programs that declare `sv::custom(query=..)`.
#[cosmwasm_schema::cw_serde]
pub enum MyQuery {
    Peek {},
}
impl cosmwasm_std::CustomQuery for MyQuery {}

/// User-defined struct of the argument type universe.
#[cosmwasm_schema::cw_serde]
pub struct Pt {
    pub x: u32,
    pub label: String,
}

/// User-defined enum of the argument type universe (unit and struct variants).
#[cosmwasm_schema::cw_serde]
pub enum Shape {
    Dot,
    Rect { w: u32, h: u32 },
    Tag { name: String },
}

/// Message type of user-written (overriding) entry points.
#[cosmwasm_schema::cw_serde]
pub struct OvMsg {
    pub tag: u32,
}

/// What the next handler invocation has to return.
#[derive(Clone, Debug)]
pub enum Plan {
    /// `Ok(response)`; the text is the JSON of a `Response<M>` (queries: of the response type).
    Ok(String),
    /// `Err(own error type, code)`.
    ErrOwn(u32),
    /// `Err(StdError::generic_err(text))`, to be converted by `From`.
    ErrStd(String),
    /// Like `Ok`, but only for the first handler invocation; later ones (handlers run by the
    /// sub-messages of that response) answer with an empty response.
    OkOnce(String),
}

thread_local! {
    static LOG: RefCell<Vec<Value>> = const { RefCell::new(Vec::new()) };
    static PLAN: RefCell<Option<Plan>> = const { RefCell::new(None) };
    static NEW_CALLS: RefCell<u64> = const { RefCell::new(0) };
    static NEW_TYPES: RefCell<Vec<&'static str>> = const { RefCell::new(Vec::new()) };
}

pub fn set_plan(p: Option<Plan>) {
    PLAN.with(|c| *c.borrow_mut() = p);
}
pub fn plan_from_json(v: &Value) -> Option<Plan> {
    if v.is_null() {
        return None;
    }
    if let Some(t) = v.get("ok") {
        let text = t.as_str().expect("plan.ok must be a string").to_owned();
        if v.get("once").and_then(|o| o.as_bool()).unwrap_or(false) {
            return Some(Plan::OkOnce(text));
        }
        return Some(Plan::Ok(text));
    }
    if let Some(c) = v.get("err_own") {
        return Some(Plan::ErrOwn(c.as_u64().unwrap() as u32));
    }
    if let Some(t) = v.get("err_std") {
        return Some(Plan::ErrStd(t.as_str().unwrap().to_owned()));
    }
    panic!("bad plan {v}");
}
pub fn take_log() -> Vec<Value> {
    LOG.with(|l| std::mem::take(&mut *l.borrow_mut()))
}
pub fn clear_log() {
    LOG.with(|l| l.borrow_mut().clear());
    NEW_CALLS.with(|c| *c.borrow_mut() = 0);
    NEW_TYPES.with(|c| c.borrow_mut().clear());
}
fn push(ev: Value) {
    LOG.with(|l| l.borrow_mut().push(ev));
}
/// Called by every generated contract's `new()`: counts constructor invocations.
pub fn note_new() {
    NEW_CALLS.with(|c| *c.borrow_mut() += 1);
}
/// `new()` of a generic contract: also records which instantiation of the contract type was built.
pub fn note_new_of(type_name: &'static str) {
    note_new();
    NEW_TYPES.with(|c| c.borrow_mut().push(type_name));
}
pub fn new_types() -> Vec<&'static str> {
    NEW_TYPES.with(|c| c.borrow().clone())
}
pub fn new_calls() -> u64 {
    NEW_CALLS.with(|c| *c.borrow())
}

pub const PROBE_KEY: &[u8] = b"probe";
pub const PROBE_ADDR: &str = "probe_addr";
pub const PROBE_DENOM: &str = "uprobe";

fn storage_probe(st: &dyn Storage) -> Value {
    match st.get(PROBE_KEY) {
        Some(v) => Value::String(String::from_utf8_lossy(&v).into_owned()),
        None => Value::Null,
    }
}
fn api_probe(api: &dyn cosmwasm_std::Api) -> Value {
    match api.addr_humanize(&CanonicalAddr::from(vec![7u8; 20])) {
        Ok(a) => Value::String(a.into_string()),
        Err(e) => json!({ "err": e.to_string() }),
    }
}
fn querier_probe<Q: CustomQuery>(q: &cosmwasm_std::QuerierWrapper<Q>) -> Value {
    match q.query_balance(PROBE_ADDR, PROBE_DENOM) {
        Ok(c) => Value::String(c.amount.to_string()),
        Err(e) => json!({ "err": e.to_string() }),
    }
}

fn env_json(env: &Env) -> Value {
    serde_json::to_value(env).unwrap()
}
fn info_json(info: &MessageInfo) -> Value {
    serde_json::to_value(info).unwrap()
}

/// Reply-only context parts.
pub struct ReplyObs<'a> {
    pub gas_used: u64,
    pub events: &'a [Event],
    pub msg_responses: &'a [MsgResponse],
}

fn args_json(args: Vec<(&str, String)>) -> Value {
    Value::Array(
        args.into_iter()
            .map(|(n, v)| json!([n, v]))
            .collect::<Vec<_>>(),
    )
}

/// Echo for every state-changing kind (instantiate, exec, sudo, migrate, reply).
#[allow(clippy::too_many_arguments)]
pub fn echo_mut<Q, M, E>(
    hid: &str,
    deps: DepsMut<Q>,
    env: &Env,
    info: Option<&MessageInfo>,
    reply: Option<ReplyObs>,
    args: Vec<(&str, String)>,
) -> Result<Response<M>, E>
where
    Q: CustomQuery,
    M: DeserializeOwned,
    E: PlanErr,
{
    let seq = LOG.with(|l| l.borrow().len());
    let mut ev = json!({
        "handler": hid,
        "args": args_json(args),
        "env": env_json(env),
        "info": info.map(info_json).unwrap_or(Value::Null),
        "storage_probe": storage_probe(deps.storage),
        "api_probe": api_probe(deps.api),
        "querier_probe": querier_probe(&deps.querier),
    });
    if let Some(r) = reply {
        ev["reply"] = json!({
            "gas_used": r.gas_used,
            "events": serde_json::to_value(r.events).unwrap(),
            "msg_responses": serde_json::to_value(r.msg_responses).unwrap(),
        });
    }
    push(ev);
    // visible side effects in the caller's storage
    deps.storage
        .set(b"last", format!("{hid}#{seq}").as_bytes());
    let ck = format!("cnt:{hid}");
    let n: u64 = deps
        .storage
        .get(ck.as_bytes())
        .map(|v| String::from_utf8_lossy(&v).parse().unwrap_or(0))
        .unwrap_or(0);
    deps.storage.set(ck.as_bytes(), (n + 1).to_string().as_bytes());

    let plan = PLAN.with(|p| {
        let cur = p.borrow().clone();
        if matches!(cur, Some(Plan::OkOnce(_))) {
            *p.borrow_mut() = None;
        }
        cur
    });
    match plan {
        None => Ok(Response::default()),
        Some(Plan::Ok(text)) | Some(Plan::OkOnce(text)) => match from_json::<Response<M>>(text.as_bytes()) {
            Ok(r) => Ok(r),
            Err(e) => Err(E::from_std(StdError::generic_err(format!(
                "HARNESS: plan response does not parse: {e}"
            )))),
        },
        Some(Plan::ErrOwn(c)) => Err(E::own(c)),
        Some(Plan::ErrStd(t)) => Err(E::from_std(StdError::generic_err(t))),
    }
}

/// Echo for query handlers; `R` is the handler's declared response type.
pub fn echo_query<Q, R, E>(
    hid: &str,
    deps: Deps<Q>,
    env: &Env,
    args: Vec<(&str, String)>,
) -> Result<R, E>
where
    Q: CustomQuery,
    R: DeserializeOwned,
    E: PlanErr,
{
    push(json!({
        "handler": hid,
        "args": args_json(args),
        "env": env_json(env),
        "info": Value::Null,
        "storage_probe": storage_probe(deps.storage),
        "api_probe": api_probe(deps.api),
        "querier_probe": querier_probe(&deps.querier),
    }));
    match PLAN.with(|p| p.borrow().clone()) {
        None => Err(E::from_std(StdError::generic_err(
            "HARNESS: query handler invoked without a plan",
        ))),
        Some(Plan::Ok(text)) | Some(Plan::OkOnce(text)) => from_json::<R>(text.as_bytes()).map_err(|e| {
            E::from_std(StdError::generic_err(format!(
                "HARNESS: plan value does not parse: {e}"
            )))
        }),
        Some(Plan::ErrOwn(c)) => Err(E::own(c)),
        Some(Plan::ErrStd(t)) => Err(E::from_std(StdError::generic_err(t))),
    }
}

/// JSON text of a value, as cosmwasm encodes it (serde_json_wasm).
pub fn j<T: serde::Serialize>(v: &T) -> String {
    match cosmwasm_std::to_json_string(v) {
        Ok(s) => s,
        Err(e) => format!("<<unserialisable: {e}>>"),
    }
}

pub mod prelude {
    pub use crate::errs::{DescribeErr, ErrParam, IfaceErr, LookupErr, MonErr, PlanErr};
    pub use crate::{echo_mut, echo_query, j, note_new, note_new_of, MyMsg, MyQuery, Pt, ReplyObs, Shape};
}

/// Bound for the type parameters of generated generic contracts and the associated types of
/// generated interfaces: everything a message field has to be.
pub trait Param:
    serde::Serialize + serde::de::DeserializeOwned + Clone + std::fmt::Debug + PartialEq + schemars::JsonSchema
{
}
impl<T> Param for T where
    T: serde::Serialize + serde::de::DeserializeOwned + Clone + std::fmt::Debug + PartialEq + schemars::JsonSchema
{
}

/// A type-level function: `<Enc as Encoding<T>>::Wire` mentions `T` only as the trait argument of a qualified path.
pub trait Encoding<T> {
    type Wire;
}
pub struct Enc;
impl<T> Encoding<T> for Enc {
    type Wire = Vec<T>;
}

/// A bound that relates two type parameters and is satisfied by every pair of types.
pub trait Rel<X: ?Sized> {}
impl<A: ?Sized, X: ?Sized> Rel<X> for A {}

/// An aliased result type: sylvia cannot see the response type through it, so queries returning it
/// must name their response type with `resp=`.
pub type QResult<T, E> = Result<T, E>;

/// Types whose *last path segment* equals a conventional generic parameter name (C19): a path such as
/// `svmon::named::Msg` is not a use of the user's parameter `Msg`.
pub mod named {
    macro_rules! named_types {
        ($($n:ident),*) => { $(
            #[cosmwasm_schema::cw_serde]
            pub struct $n { pub v: u32 }
        )* };
    }
    named_types!(A, B, C, D, E, F, G, H, I, J, K, L, M, N, O, P, Q, R, S, T, U, V, W, X, Y, Z, Msg, Query, Param, Data, Exec, Custom, Item);
    named_types!(T1, T2, ExecT, QueryT, ParamT, RespT, FieldT, ItemT, ParamA, RespB, ItemC, KeyD, ErrT, Error, Key, Value, Config, State);
    named_types!(ExecC, QueryC, Api, Ctx, Deps, Env, Info, Storage, Response, Reply, Event, Coin, Addr, Binary, Empty, Contract, Remote, Executor,
                 Querier, Interface, Token, Owner, Admin, Payload, Result2, Messages, Sudo, Migrate, Instantiate, CustomMsg, CustomQuery, ContractT, MtApp);
    named_types!(MsgT, SudoT, DataT, KeyT, ValueT, SubMsgResult, SubMsgResponse);
    pub(crate) use named_types;
}

/// User types whose *name* equals a name of the framework's own vocabulary.  A program imports one of them
/// under that bare name; wherever its handlers mention the name, the user's type is meant.
pub mod shadow {
    use super::named::named_types;
    named_types!(Empty, StdError, StdResult, Response, Binary, Addr, Coin, Uint128, Reply, SubMsgResult, Deps, DepsMut, Env, MessageInfo,
                 CosmosMsg, WasmMsg, SubMsg, Event, Storage, QuerierWrapper, Value, Error, Serialize, Deserialize, JsonSchema,
                 Remote, App, Contract, PhantomData, Timestamp, BlockInfo, Executor, Querier, BoundQuerier, ExecCtx, QueryCtx, Api, Attribute);
}
