//! Command loop: one JSON command per stdin line, one JSON observation per stdout line.

use serde_json::{json, Value};
use std::io::{BufRead, Write};
use std::panic::{catch_unwind, AssertUnwindSafe};

/// One generated program (contract + interfaces) with its glue.
pub trait Prog {
    fn name(&self) -> &'static str;
    /// Executes one operation; `None` when the op is unknown to this program.
    fn call(&self, op: &str, a: &Value, st: &mut crate::mt::State) -> Option<Value>;
}

fn panic_text(p: Box<dyn std::any::Any + Send>) -> String {
    if let Some(s) = p.downcast_ref::<&str>() {
        (*s).to_owned()
    } else if let Some(s) = p.downcast_ref::<String>() {
        s.clone()
    } else {
        "<non-string panic>".to_owned()
    }
}

pub fn run(progs: Vec<Box<dyn Prog>>) {
    std::panic::set_hook(Box::new(|_| {}));
    let stdin = std::io::stdin();
    let stdout = std::io::stdout();
    let mut out = std::io::BufWriter::new(stdout.lock());
    let mut st = crate::mt::State::default();
    for line in stdin.lock().lines() {
        let line = match line {
            Ok(l) => l,
            Err(_) => break,
        };
        if line.trim().is_empty() {
            continue;
        }
        if line.trim() == "FLUSH" {
            out.flush().unwrap();
            continue;
        }
        let a: Value = match serde_json::from_str(&line) {
            Ok(v) => v,
            Err(e) => {
                writeln!(out, "{}", json!({"harness_error": format!("bad command: {e}")})).unwrap();
                continue;
            }
        };
        let op = a["op"].as_str().unwrap_or("").to_owned();
        let pname = a["prog"].as_str().unwrap_or("").to_owned();
        crate::clear_log();
        let r = catch_unwind(AssertUnwindSafe(|| {
            if pname == "lib" {
                return crate::libops::call(&op, &a);
            }
            if pname == "mt" {
                return crate::mt::call(&op, &a, &mut st);
            }
            match progs.iter().find(|p| p.name() == pname) {
                None => Some(json!({"harness_error": format!("no program {pname}")})),
                Some(p) => p.call(&op, &a, &mut st),
            }
        }));
        crate::set_plan(None);
        let mut v = match r {
            Ok(Some(v)) => v,
            Ok(None) => json!({"harness_error": format!("unknown op {op} for {pname}")}),
            Err(p) => json!({"panic": panic_text(p)}),
        };
        v["events"] = Value::Array(crate::take_log());
        if let Some(id) = a.get("id") {
            v["id"] = id.clone();
        }
        writeln!(out, "{v}").unwrap();
    }
    out.flush().unwrap();
}
