//! Error types used by generated programs, and the traits the monitors use to plan and
//! to describe errors.

use cosmwasm_std::StdError;
use serde_json::{json, Value};
use std::fmt;

/// How a handler builds the error the driver planned.
pub trait PlanErr: Sized {
    /// an error of the handler's *own* error type, tagged with a code
    fn own(code: u32) -> Self;
    fn from_std(e: StdError) -> Self;
}

/// Structured description of an error value for the python oracle.
pub trait DescribeErr {
    fn describe(&self) -> Value;
}

impl PlanErr for StdError {
    fn own(code: u32) -> Self {
        StdError::generic_err(format!("own-std-{code}"))
    }
    fn from_std(e: StdError) -> Self {
        e
    }
}
impl DescribeErr for StdError {
    fn describe(&self) -> Value {
        match self {
            StdError::GenericErr { msg, .. } => json!({"ty": "StdError", "generic": msg}),
            other => json!({"ty": "StdError", "other": other.to_string()}),
        }
    }
}

/// Error type of interfaces that do not use `StdError`.
#[derive(Debug, PartialEq)]
pub enum IfaceErr {
    Std(StdError),
    Custom(u32),
}
impl fmt::Display for IfaceErr {
    fn fmt(&self, f: &mut fmt::Formatter<'_>) -> fmt::Result {
        match self {
            IfaceErr::Std(e) => write!(f, "{e}"),
            IfaceErr::Custom(c) => write!(f, "iface custom error {c}"),
        }
    }
}
impl std::error::Error for IfaceErr {}
impl From<StdError> for IfaceErr {
    fn from(e: StdError) -> Self {
        IfaceErr::Std(e)
    }
}
impl PlanErr for IfaceErr {
    fn own(code: u32) -> Self {
        IfaceErr::Custom(code)
    }
    fn from_std(e: StdError) -> Self {
        IfaceErr::Std(e)
    }
}
impl DescribeErr for IfaceErr {
    fn describe(&self) -> Value {
        match self {
            IfaceErr::Std(e) => json!({"ty": "IfaceErr", "std": e.describe()}),
            IfaceErr::Custom(c) => json!({"ty": "IfaceErr", "custom": c}),
        }
    }
}

/// A handler-local error type: converts into the contract's error, but has no `From<StdError>` of its own.
#[derive(Debug, PartialEq)]
pub enum LookupErr {
    Code(u32),
    Text(String),
}
impl fmt::Display for LookupErr {
    fn fmt(&self, f: &mut fmt::Formatter<'_>) -> fmt::Result {
        match self {
            LookupErr::Code(c) => write!(f, "lookup error {c}"),
            LookupErr::Text(t) => write!(f, "lookup: {t}"),
        }
    }
}
impl std::error::Error for LookupErr {}
impl PlanErr for LookupErr {
    fn own(code: u32) -> Self {
        LookupErr::Code(code)
    }
    fn from_std(e: StdError) -> Self {
        match e {
            StdError::GenericErr { msg, .. } => LookupErr::Text(msg),
            other => LookupErr::Text(other.to_string()),
        }
    }
}
impl DescribeErr for LookupErr {
    fn describe(&self) -> Value {
        match self {
            LookupErr::Code(c) => json!({"ty": "LookupErr", "code": c}),
            LookupErr::Text(t) => json!({"ty": "LookupErr", "text": t}),
        }
    }
}

/// Error type of contracts that declare `#[sv::error(MonErr)]`.
#[derive(Debug, PartialEq)]
pub enum MonErr {
    Std(StdError),
    Custom(u32),
    Iface(IfaceErr),
    Lookup(LookupErr),
}
impl From<LookupErr> for MonErr {
    fn from(e: LookupErr) -> Self {
        MonErr::Lookup(e)
    }
}
impl fmt::Display for MonErr {
    fn fmt(&self, f: &mut fmt::Formatter<'_>) -> fmt::Result {
        match self {
            MonErr::Std(e) => write!(f, "{e}"),
            MonErr::Custom(c) => write!(f, "contract custom error {c}"),
            MonErr::Iface(e) => write!(f, "via interface: {e}"),
            MonErr::Lookup(e) => write!(f, "{e}"),
        }
    }
}
impl std::error::Error for MonErr {}
impl From<StdError> for MonErr {
    fn from(e: StdError) -> Self {
        MonErr::Std(e)
    }
}
impl From<IfaceErr> for MonErr {
    fn from(e: IfaceErr) -> Self {
        MonErr::Iface(e)
    }
}
impl PlanErr for MonErr {
    fn own(code: u32) -> Self {
        MonErr::Custom(code)
    }
    fn from_std(e: StdError) -> Self {
        MonErr::Std(e)
    }
}
impl DescribeErr for MonErr {
    fn describe(&self) -> Value {
        match self {
            MonErr::Std(e) => json!({"ty": "MonErr", "std": e.describe()}),
            MonErr::Custom(c) => json!({"ty": "MonErr", "custom": c}),
            MonErr::Iface(e) => json!({"ty": "MonErr", "iface": e.describe()}),
            MonErr::Lookup(e) => json!({"ty": "MonErr", "lookup": e.describe()}),
        }
    }
}

/// Bound of a contract's type parameter that is used as its error type (`#[sv::error(ErrT)]`).
pub trait ErrParam:
    PlanErr + DescribeErr + From<StdError> + fmt::Debug + fmt::Display + Send + Sync
{
}
impl<T> ErrParam for T where
    T: PlanErr + DescribeErr + From<StdError> + fmt::Debug + fmt::Display + Send + Sync
{
}

/// Description of an `anyhow::Error` coming out of the multitest glue: tries the known
/// error types first.
pub fn describe_anyhow(e: &anyhow::Error) -> Value {
    if let Some(x) = e.downcast_ref::<MonErr>() {
        return x.describe();
    }
    if let Some(x) = e.downcast_ref::<IfaceErr>() {
        return x.describe();
    }
    if let Some(x) = e.downcast_ref::<StdError>() {
        return x.describe();
    }
    json!({"ty": "anyhow", "text": format!("{e:#}")})
}
