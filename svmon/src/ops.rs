//! Generic helpers the generated glue is assembled from.  Every helper turns one
//! execution of real sylvia-generated code into a JSON observation.

use crate::errs::DescribeErr;
use crate::{plan_from_json, set_plan, PROBE_ADDR, PROBE_DENOM, PROBE_KEY};
use cosmwasm_std::testing::{mock_env, MockApi, MockQuerier, MockStorage};
use cosmwasm_std::{
    from_json, Addr, Binary, Coin, CustomQuery, Env, MessageInfo, OwnedDeps, Order, Response,
    Storage,
};
use serde::de::DeserializeOwned;
use serde::Serialize;
use serde_json::{json, Map, Value};

/// Failure of the driver-side part of a call.
pub enum Fail {
    /// the message bytes did not decode into the message type
    Dec(String),
    /// the handler (or framework) returned an error value
    Err(Value),
}

pub fn dec<T: DeserializeOwned>(doc: &[u8]) -> Result<T, Fail> {
    from_json::<T>(doc).map_err(|e| Fail::Dec(e.to_string()))
}
pub fn herr<E: DescribeErr + std::fmt::Display>(e: E) -> Fail {
    let mut d = e.describe();
    d["display"] = Value::String(e.to_string());
    Fail::Err(d)
}
pub fn aerr(e: anyhow::Error) -> Fail {
    let mut d = crate::errs::describe_anyhow(&e);
    d["display"] = Value::String(format!("{e:#}"));
    d["root"] = Value::String(e.root_cause().to_string());
    Fail::Err(d)
}

pub fn leak(s: &str) -> &'static str {
    Box::leak(s.to_owned().into_boxed_str())
}

pub struct Ctx<Q: CustomQuery + DeserializeOwned> {
    pub deps: OwnedDeps<MockStorage, MockApi, MockQuerier<Q>, Q>,
    pub env: Env,
    pub info: MessageInfo,
    pub doc: Vec<u8>,
}

pub fn doc_of(a: &Value) -> Vec<u8> {
    if let Some(s) = a.get("doc").and_then(Value::as_str) {
        return s.as_bytes().to_vec();
    }
    if let Some(s) = a.get("doc_b64").and_then(Value::as_str) {
        return Binary::from_base64(s).expect("doc_b64").to_vec();
    }
    Vec::new()
}

/// Builds the world a call runs in from the command: storage content, probes, env, info.
pub fn ctx<Q: CustomQuery + DeserializeOwned>(a: &Value) -> Ctx<Q> {
    let w = a.get("world").cloned().unwrap_or(json!({}));
    let mut storage = MockStorage::new();
    if let Some(m) = w.get("storage").and_then(Value::as_object) {
        for (k, v) in m {
            storage.set(k.as_bytes(), v.as_str().unwrap_or("").as_bytes());
        }
    }
    if let Some(p) = w.get("probe").and_then(Value::as_str) {
        storage.set(PROBE_KEY, p.as_bytes());
    }
    let prefix = w
        .get("api_prefix")
        .and_then(Value::as_str)
        .unwrap_or("cosmwasm");
    let api = MockApi::default().with_prefix(leak(prefix));
    let bal: u128 = w
        .get("balance")
        .and_then(Value::as_str)
        .and_then(|s| s.parse().ok())
        .unwrap_or(0);
    let querier = MockQuerier::<Q>::new(&[(PROBE_ADDR, &[Coin::new(bal, PROBE_DENOM)])]);
    let env: Env = match a.get("env") {
        Some(e) if !e.is_null() => serde_json::from_value(e.clone()).expect("env"),
        _ => mock_env(),
    };
    let info: MessageInfo = match a.get("info") {
        Some(i) if !i.is_null() => serde_json::from_value(i.clone()).expect("info"),
        _ => MessageInfo {
            sender: Addr::unchecked("sender"),
            funds: vec![],
        },
    };
    set_plan(plan_from_json(a.get("plan").unwrap_or(&Value::Null)));
    Ctx {
        deps: OwnedDeps {
            storage,
            api,
            querier,
            custom_query_type: std::marker::PhantomData,
        },
        env,
        info,
        doc: doc_of(a),
    }
}

pub fn dump_storage(st: &dyn Storage) -> Value {
    let mut m = Map::new();
    for (k, v) in st.range(None, None, Order::Ascending) {
        m.insert(
            String::from_utf8_lossy(&k).into_owned(),
            Value::String(String::from_utf8_lossy(&v).into_owned()),
        );
    }
    Value::Object(m)
}

pub fn resp_json<M: Serialize>(r: Response<M>) -> Value {
    serde_json::to_value(&r).unwrap()
}
pub fn bin_json(b: Binary) -> Value {
    json!({
        "b64": b.to_base64(),
        "text": String::from_utf8_lossy(b.as_slice()),
    })
}

/// Final observation of a call.
pub fn finish<Q: CustomQuery + DeserializeOwned>(r: Result<Value, Fail>, c: &Ctx<Q>) -> Value {
    let res = match r {
        Ok(v) => json!({ "ok": v }),
        Err(Fail::Dec(t)) => json!({ "dec_err": t }),
        Err(Fail::Err(d)) => json!({ "err": d }),
    };
    set_plan(None);
    json!({
        "res": res,
        "storage": dump_storage(&c.deps.storage),
        "new_calls": crate::new_calls(),
        "new_types": crate::new_types(),
    })
}
pub fn finish_plain(r: Result<Value, Fail>) -> Value {
    let res = match r {
        Ok(v) => json!({ "ok": v }),
        Err(Fail::Dec(t)) => json!({ "dec_err": t }),
        Err(Fail::Err(d)) => json!({ "err": d }),
    };
    set_plan(None);
    json!({ "res": res })
}

/// Decode a document into `T`; report its re-encoding and Debug text.
pub fn parse<T: DeserializeOwned + Serialize + std::fmt::Debug>(a: &Value) -> Value {
    let doc = doc_of(a);
    match from_json::<T>(&doc) {
        Ok(v) => json!({"res": {"ok": {"json": crate::j(&v), "debug": format!("{v:?}")}}}),
        Err(e) => json!({"res": {"dec_err": e.to_string()}}),
    }
}

/// Canonical encoding of a value of type `T`: the argument's *own* JSON encoding.
pub fn canon<T: DeserializeOwned + Serialize>(text: &str) -> Result<String, String> {
    from_json::<T>(text.as_bytes())
        .map(|v| crate::j(&v))
        .map_err(|e| e.to_string())
}

/// `canon` over a list of texts.
pub fn canon_many<T: DeserializeOwned + Serialize>(a: &Value) -> Value {
    let out: Vec<Value> = a["texts"]
        .as_array()
        .expect("texts")
        .iter()
        .map(|t| match canon::<T>(t.as_str().unwrap()) {
            Ok(s) => json!({ "ok": s }),
            Err(e) => json!({ "err": e }),
        })
        .collect();
    json!({ "res": { "ok": out } })
}

/// Typed argument out of the `args` list of a command (JSON text per argument).
pub fn arg<T: DeserializeOwned>(a: &Value, i: usize) -> T {
    let t = a["args"][i]
        .as_str()
        .unwrap_or_else(|| panic!("HARNESS: missing arg {i}"));
    from_json::<T>(t.as_bytes()).unwrap_or_else(|e| panic!("HARNESS: arg {i} `{t}`: {e}"))
}

pub fn coins_of(v: &Value) -> Vec<Coin> {
    if v.is_null() {
        return vec![];
    }
    serde_json::from_value(v.clone()).expect("coins")
}

// ------------------------------------------------------------------ schemas (C16)

pub fn schemas<T: cosmwasm_schema::QueryResponses>() -> Value {
    let m = T::response_schemas_impl();
    json!({"res": {"ok": serde_json::to_value(&m).unwrap()}})
}
/// Schema of a response type as cosmwasm-schema generates it for `QueryResponses` / the API file.
pub fn cw_schema_json<T: schemars::JsonSchema>() -> Value {
    let s = cosmwasm_schema::schema_for!(T);
    json!({"res": {"ok": {"root": serde_json::to_value(&s).unwrap(), "name": T::schema_name()}}})
}
pub fn schema_json<T: schemars::JsonSchema + ?Sized>() -> Value {
    let s = schemars::schema_for!(T);
    json!({"res": {"ok": {"root": serde_json::to_value(&s).unwrap(), "name": T::schema_name()}}})
}

// ------------------------------------------------------------------ Remote (C20, C10)

/// Everything observable about `Remote<T>` for one address string.
/// A struct that embeds a handle with `#[serde(flatten)]`: the `addr` member sits next to the struct's own members.
#[derive(Serialize)]
#[serde(bound = "R: Serialize")]
struct FlatHolderS<R> {
    n: u32,
    #[serde(flatten)]
    r: R,
    tail: String,
}
/// A struct holding a handle as an ordinary member.
#[derive(Serialize)]
#[serde(bound = "R: Serialize")]
struct NestedHolder<R> {
    n: u32,
    r: R,
    tail: String,
}
#[derive(serde::Deserialize)]
#[serde(bound = "R: DeserializeOwned")]
struct NestedHolderD<R> {
    #[allow(dead_code)]
    n: u32,
    r: R,
    #[allow(dead_code)]
    tail: String,
}
/// A handle as one alternative of an untagged enum (serde buffers the input and replays it to each alternative).
#[derive(serde::Deserialize)]
#[serde(untagged, bound = "R: DeserializeOwned")]
enum EitherRemote<R> {
    Number(u64),
    Handle(R),
}
#[derive(serde::Deserialize)]
#[serde(bound = "R: DeserializeOwned")]
struct FlatHolderD<R> {
    n: u32,
    #[serde(flatten)]
    r: R,
    tail: String,
}

pub fn remote_probe<T: ?Sized>(a: &Value) -> Value
where
    for<'x> sylvia::types::Remote<'x, T>: Serialize + schemars::JsonSchema,
    sylvia::types::Remote<'static, T>: DeserializeOwned,
{
    use sylvia::types::Remote;
    let s = a["addr"].as_str().expect("addr");
    let addr = Addr::unchecked(s);
    let owned: Remote<'static, T> = Remote::new(addr.clone());
    let borrowed: Remote<'_, T> = Remote::borrowed(&addr);
    let text = a["text"].as_str().expect("text");
    let dec = match from_json::<Remote<'static, T>>(text.as_bytes()) {
        Ok(r) => json!({"ok": {"as_ref": AsRef::<Addr>::as_ref(&r).as_str(), "re": crate::j(&r)}}),
        Err(e) => json!({"err": e.to_string()}),
    };
    let flat_enc = cosmwasm_std::to_json_string(&FlatHolderS { n: 7, r: Remote::<'static, T>::new(addr.clone()), tail: "t".to_owned() })
        .unwrap_or_else(|e| format!("ERR {e}"));
    let flat_dec = match a["flat_text"].as_str() {
        Some(t) => match from_json::<FlatHolderD<Remote<'static, T>>>(t.as_bytes()) {
            Ok(h) => json!({"ok": {"as_ref": AsRef::<Addr>::as_ref(&h.r).as_str(), "n": h.n, "tail": h.tail}}),
            Err(e) => json!({"err": e.to_string()}),
        },
        None => Value::Null,
    };
    // other JSON writers / readers than the on-chain one: what clients, scripts and tests use, and what an enclosing
    // untagged enum or the contract-level wrapper (a self-describing value in between) hands to the handle's Deserialize
    let un = |r: Result<String, serde_json::Error>| r.unwrap_or_else(|e| format!("ERR {e}"));
    let nested = NestedHolder { n: 7, r: Remote::<'static, T>::new(addr.clone()), tail: "t".to_owned() };
    let writers = json!({
        "serde_json::to_string/owned": un(serde_json::to_string(&owned)),
        "serde_json::to_string/borrowed": un(serde_json::to_string(&borrowed)),
        "serde_json::to_vec": un(serde_json::to_vec(&borrowed).map(|v| String::from_utf8_lossy(&v).into_owned())),
        "serde_json::to_string_pretty": un(serde_json::to_string_pretty(&owned)),
        "cosmwasm_std::to_json_string": cosmwasm_std::to_json_string(&owned).unwrap_or_else(|e| format!("ERR {e}")),
        "nested/serde_json::to_string": un(serde_json::to_string(&nested)),
        "nested/cosmwasm_std::to_json_string": cosmwasm_std::to_json_string(&nested).unwrap_or_else(|e| format!("ERR {e}")),
    });
    let show = |r: Result<Remote<'static, T>, String>| match r {
        Ok(r) => json!({"ok": AsRef::<Addr>::as_ref(&r).as_str()}),
        Err(e) => json!({"err": e}),
    };
    let mut readers = serde_json::Map::new();
    for (tag, t) in [("plain", Some(text)), ("escaped", a["text_escaped"].as_str())] {
        let Some(t) = t else { continue };
        readers.insert(format!("{tag}/cosmwasm_std::from_json"), show(from_json::<Remote<'static, T>>(t.as_bytes()).map_err(|e| e.to_string())));
        readers.insert(format!("{tag}/serde_json::from_str"), show(serde_json::from_str::<Remote<'static, T>>(t).map_err(|e| e.to_string())));
        readers.insert(format!("{tag}/serde_json::from_reader"), show(serde_json::from_reader::<_, Remote<'static, T>>(t.as_bytes()).map_err(|e| e.to_string())));
        readers.insert(format!("{tag}/serde_json::from_value"), show(serde_json::from_str::<Value>(t).and_then(serde_json::from_value::<Remote<'static, T>>).map_err(|e| e.to_string())));
        readers.insert(format!("{tag}/untagged-enum"), show(from_json::<EitherRemote<Remote<'static, T>>>(t.as_bytes()).map_err(|e| e.to_string()).and_then(|e| match e {
            EitherRemote::Handle(r) => Ok(r),
            EitherRemote::Number(n) => Err(format!("decoded as number {n}")),
        })));
        readers.insert(format!("{tag}/serde_value"), show(from_json::<sylvia::serde_value::Value>(t.as_bytes()).map_err(|e| e.to_string())
            .and_then(|v| v.deserialize_into::<Remote<'static, T>>().map_err(|e| e.to_string()))));
        readers.insert(format!("{tag}/nested/serde_json::from_str"), show(serde_json::from_str::<NestedHolderD<Remote<'static, T>>>(&format!("{{\"n\":7,\"r\":{t},\"tail\":\"t\"}}"))
            .map(|h| h.r).map_err(|e| e.to_string())));
    }
    let schema = schemars::schema_for!(Remote<'static, T>);
    json!({"res": {"ok": {
        "writers": writers,
        "readers": Value::Object(readers),
        "owned": crate::j(&owned),
        "borrowed": crate::j(&borrowed),
        "owned_as_ref": AsRef::<Addr>::as_ref(&owned).as_str(),
        "borrowed_as_ref": AsRef::<Addr>::as_ref(&borrowed).as_str(),
        "decoded": dec,
        "flat_encoded": flat_enc,
        "flat_decoded": flat_dec,
        "schema_name": <Remote<'static, T> as schemars::JsonSchema>::schema_name(),
        "schema": serde_json::to_value(&schema).unwrap(),
        "update_admin": serde_json::to_value(owned.update_admin(a["new_admin"].as_str().unwrap_or("adm"))).unwrap(),
        "clear_admin": serde_json::to_value(borrowed.clear_admin()).unwrap(),
    }}})
}

pub fn wasm_json(m: cosmwasm_std::WasmMsg) -> Value {
    serde_json::to_value(&m).unwrap()
}

/// A querier that records every request and answers smart queries through a callback.
pub struct RecQuerier<'f> {
    pub log: std::cell::RefCell<Vec<Value>>,
    pub answer: Box<dyn Fn(&str, &[u8]) -> Result<Binary, String> + 'f>,
}
impl<'f> RecQuerier<'f> {
    pub fn new(answer: impl Fn(&str, &[u8]) -> Result<Binary, String> + 'f) -> Self {
        RecQuerier { log: Default::default(), answer: Box::new(answer) }
    }
}
impl cosmwasm_std::Querier for RecQuerier<'_> {
    fn raw_query(&self, bin_request: &[u8]) -> cosmwasm_std::QuerierResult {
        use cosmwasm_std::{ContractResult, SystemError, SystemResult};
        let v: Value = serde_json::from_slice(bin_request).unwrap_or(Value::Null);
        self.log.borrow_mut().push(v.clone());
        let smart = &v["wasm"]["smart"];
        if let (Some(addr), Some(msg)) = (smart["contract_addr"].as_str(), smart["msg"].as_str()) {
            let bytes = Binary::from_base64(msg).unwrap_or_default();
            return match (self.answer)(addr, bytes.as_slice()) {
                Ok(b) => SystemResult::Ok(ContractResult::Ok(b)),
                Err(e) => SystemResult::Ok(ContractResult::Err(e)),
            };
        }
        SystemResult::Err(SystemError::UnsupportedRequest { kind: "not a smart query".into() })
    }
}
