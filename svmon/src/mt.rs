//! Multitest worlds (cw-multi-test `App`s kept between commands).

use serde_json::Value;

#[derive(Default)]
pub struct State {
    pub basic: std::collections::HashMap<u64, sylvia::multitest::App<cw_multi_test::BasicApp>>,
    pub custom: std::collections::HashMap<
        u64,
        sylvia::multitest::App<cw_multi_test::BasicApp<crate::MyMsg, crate::MyQuery>>,
    >,
}

pub fn call(_op: &str, _a: &Value, _st: &mut State) -> Option<Value> {
    None
}
