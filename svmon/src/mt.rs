//! Multitest worlds: cw-multi-test `App`s kept between commands, and the *raw* side of the
//! proxy-vs-raw equivalence monitor (C12): every operation is submitted as JSON bytes through
//! cw-multi-test's own API, never through sylvia's generated helpers.

use cosmwasm_std::{Addr, Binary, Coin, CosmosMsg, CustomMsg, CustomQuery, Querier, QueryRequest, WasmQuery};
use cw_multi_test::{BasicApp, Executor, SudoMsg, WasmSudo};
use serde::de::DeserializeOwned;
use serde_json::{json, Map, Value};
use std::any::Any;
use std::collections::HashMap;
use std::fmt::Debug;

pub type AppOf<M, Q> = sylvia::multitest::App<BasicApp<M, Q>>;

#[derive(Default)]
pub struct State {
    /// world id -> `&'static AppOf<M, Q>` (leaked on purpose: proxies and CodeIds borrow it)
    pub apps: HashMap<u64, Box<dyn Any>>,
    /// per-program objects that borrow an app (`CodeId`s), keyed by the glue
    pub any: HashMap<String, Box<dyn Any>>,
}

impl State {
    pub fn app<M: 'static, Q: 'static>(&self, a: &Value) -> &'static AppOf<M, Q> {
        let id = a["world"].as_u64().expect("world");
        self.apps
            .get(&id)
            .unwrap_or_else(|| panic!("HARNESS: no world {id}"))
            .downcast_ref::<&'static AppOf<M, Q>>()
            .expect("HARNESS: world has another custom type")
    }
}

fn balances_of(a: &Value) -> Vec<(Addr, Vec<Coin>)> {
    a["balances"]
        .as_array()
        .map(|l| {
            l.iter()
                .map(|e| (Addr::unchecked(e[0].as_str().unwrap()), serde_json::from_value(e[1].clone()).unwrap()))
                .collect()
        })
        .unwrap_or_default()
}

pub fn app_response_json(r: &cw_multi_test::AppResponse) -> Value {
    json!({"events": serde_json::to_value(&r.events).unwrap(), "data": r.data.as_ref().map(|d| d.to_base64())})
}

pub fn ok(v: Value) -> Value {
    json!({"res": {"ok": v}})
}
pub fn err_anyhow(e: anyhow::Error) -> Value {
    let mut d = crate::errs::describe_anyhow(&e);
    d["display"] = Value::String(format!("{e:#}"));
    d["root"] = Value::String(e.root_cause().to_string());
    json!({"res": {"err": d}})
}
pub fn err_described<E: crate::DescribeErr + std::fmt::Display>(e: E) -> Value {
    let mut d = e.describe();
    d["display"] = Value::String(e.to_string());
    json!({"res": {"err": d}})
}

fn raw_op<ExecC, QueryC>(app: &sylvia::multitest::App<BasicApp<ExecC, QueryC>>, op: &str, a: &Value) -> Option<Value>
where
    ExecC: sylvia::types::CustomMsg + Debug + 'static,
    QueryC: sylvia::types::CustomQuery + Debug + 'static,
{
    crate::set_plan(crate::plan_from_json(a.get("plan").unwrap_or(&Value::Null)));
    Some(match op {
        "raw:execute" => {
            let sender = Addr::unchecked(a["sender"].as_str().unwrap());
            let msg: CosmosMsg<ExecC> = serde_json::from_value(a["msg"].clone()).expect("cosmos msg");
            match app.app_mut().execute(sender, msg) {
                Ok(r) => ok(app_response_json(&r)),
                Err(e) => err_anyhow(e),
            }
        }
        "raw:sudo" => {
            let m = WasmSudo {
                contract_addr: Addr::unchecked(a["addr"].as_str().unwrap()),
                message: Binary::from(a["doc"].as_str().unwrap().as_bytes()),
            };
            match app.app_mut().sudo(SudoMsg::Wasm(m)) {
                Ok(r) => ok(app_response_json(&r)),
                Err(e) => err_anyhow(e),
            }
        }
        "raw:query" => {
            let req: QueryRequest<QueryC> = QueryRequest::Wasm(WasmQuery::Smart {
                contract_addr: a["addr"].as_str().unwrap().to_owned(),
                msg: Binary::from(a["doc"].as_str().unwrap().as_bytes()),
            });
            let bytes = cosmwasm_std::to_json_vec(&req).unwrap();
            match app.raw_query(&bytes) {
                cosmwasm_std::SystemResult::Ok(cosmwasm_std::ContractResult::Ok(b)) => ok(json!({"text": String::from_utf8_lossy(b.as_slice())})),
                cosmwasm_std::SystemResult::Ok(cosmwasm_std::ContractResult::Err(e)) => json!({"res": {"err": {"ty": "querier", "display": e}}}),
                cosmwasm_std::SystemResult::Err(e) => json!({"res": {"err": {"ty": "system", "display": e.to_string()}}}),
            }
        }
        "state" => {
            let inner = app.app();
            let mut contracts = Map::new();
            for c in a["contracts"].as_array().cloned().unwrap_or_default() {
                let addr = Addr::unchecked(c.as_str().unwrap());
                let dump: Vec<Value> = inner
                    .dump_wasm_raw(&addr)
                    .into_iter()
                    .map(|(k, v)| json!([String::from_utf8_lossy(&k), String::from_utf8_lossy(&v)]))
                    .collect();
                let data = match inner.contract_data(&addr) {
                    Ok(d) => json!({"code_id": d.code_id, "creator": d.creator, "admin": d.admin, "label": d.label}),
                    Err(e) => json!({"err": e.to_string()}),
                };
                contracts.insert(addr.to_string(), json!({"storage": dump, "data": data}));
            }
            let mut balances = Map::new();
            for c in a["accounts"].as_array().cloned().unwrap_or_default() {
                let addr = c.as_str().unwrap();
                #[allow(deprecated)]
                let b = inner.wrap().query_all_balances(addr).map(|v| serde_json::to_value(v).unwrap()).unwrap_or(Value::Null);
                balances.insert(addr.to_owned(), b);
            }
            ok(json!({"contracts": contracts, "balances": balances, "block": serde_json::to_value(inner.block_info()).unwrap()}))
        }
        _ => return None,
    })
}

fn new_app<M, Q>(a: &Value, st: &mut State)
where
    M: sylvia::types::CustomMsg + Debug + 'static,
    Q: sylvia::types::CustomQuery + Debug + 'static,
{
    let id = a["world"].as_u64().expect("world");
    let bal = balances_of(a);
    let app: AppOf<M, Q> = sylvia::multitest::App::custom(|router, _api, storage| {
        for (addr, coins) in &bal {
            router.bank.init_balance(storage, addr, coins.clone()).unwrap();
        }
    });
    let leaked: &'static AppOf<M, Q> = Box::leak(Box::new(app));
    st.apps.insert(id, Box::new(leaked));
}

pub fn call(op: &str, a: &Value, st: &mut State) -> Option<Value> {
    use cosmwasm_std::Empty;
    let m = a["m"].as_bool().unwrap_or(false);
    let q = a["q"].as_bool().unwrap_or(false);
    if op == "new" {
        match (m, q) {
            (false, false) => new_app::<Empty, Empty>(a, st),
            (true, false) => new_app::<crate::MyMsg, Empty>(a, st),
            (false, true) => new_app::<Empty, crate::MyQuery>(a, st),
            (true, true) => new_app::<crate::MyMsg, crate::MyQuery>(a, st),
        }
        return Some(ok(Value::Null));
    }
    match (m, q) {
        (false, false) => raw_op(st.app::<Empty, Empty>(a), op, a),
        (true, false) => raw_op(st.app::<crate::MyMsg, Empty>(a), op, a),
        (false, true) => raw_op(st.app::<Empty, crate::MyQuery>(a), op, a),
        (true, true) => raw_op(st.app::<crate::MyMsg, crate::MyQuery>(a), op, a),
    }
}
