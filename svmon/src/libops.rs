//! Operations on sylvia's own runtime library that need no generated program.

use serde_json::{json, Value};

pub fn call(op: &str, a: &Value) -> Option<Value> {
    match op {
        "ping" => Some(json!({"res": {"ok": a.get("x").cloned().unwrap_or(Value::Null)}})),
        _ => None,
    }
}
