//! Operations on sylvia's own runtime library that need no generated program.

use cosmwasm_std::{Empty, Response};
use serde_json::{json, Value};
use std::panic::{catch_unwind, AssertUnwindSafe};
use sylvia::into_response::IntoResponse;

fn run_n<const N: usize>(lists: &[Vec<String>]) -> bool {
    let refs: Vec<Vec<&str>> = lists.iter().map(|l| l.iter().map(|s| s.as_str()).collect()).collect();
    let mut arr: [&[&str]; N] = [&[]; N];
    for (i, r) in refs.iter().enumerate() {
        arr[i] = r.as_slice();
    }
    catch_unwind(AssertUnwindSafe(|| sylvia::utils::assert_no_intersection(arr))).is_err()
}

/// `true` = the overlap check panicked on this tuple of lists.
fn no_intersection(lists: &[Vec<String>]) -> Value {
    let p = match lists.len() {
        0 => run_n::<0>(lists),
        1 => run_n::<1>(lists),
        2 => run_n::<2>(lists),
        3 => run_n::<3>(lists),
        4 => run_n::<4>(lists),
        5 => run_n::<5>(lists),
        6 => run_n::<6>(lists),
        7 => run_n::<7>(lists),
        8 => run_n::<8>(lists),
        _ => return json!("too-many"),
    };
    json!(p)
}

pub fn call(op: &str, a: &Value) -> Option<Value> {
    match op {
        "ping" => Some(json!({"res": {"ok": a.get("x").cloned().unwrap_or(Value::Null)}})),
        "no_intersection_many" => {
            let tuples: Vec<Vec<Vec<String>>> = serde_json::from_value(a["tuples"].clone()).expect("tuples");
            let out: Vec<Value> = tuples.iter().map(|t| no_intersection(t)).collect();
            Some(json!({"res": {"ok": out}}))
        }
        // IntoResponse::<MyMsg> on a Response<Empty> given as JSON
        "into_response" => {
            let text = a["resp"].as_str().expect("resp");
            let r: Response<Empty> = match cosmwasm_std::from_json(text.as_bytes()) {
                Ok(r) => r,
                Err(e) => return Some(json!({"res": {"dec_err": e.to_string()}})),
            };
            let input = serde_json::to_value(&r).unwrap();
            let out: Result<Response<crate::MyMsg>, _> = r.into_response();
            Some(match out {
                Ok(o) => json!({"res": {"ok": {"input": input, "output": serde_json::to_value(&o).unwrap()}}}),
                Err(e) => json!({"res": {"err": {"input": input, "display": e.to_string()}}}),
            })
        }
        _ => None,
    }
}
