// Stand-alone runner for the feature-variant builds of sylvia (C11): no svmon, no extra dependencies.
// stdin: one JSON `Response<Empty>` per line; stdout: `OK\t<input>\t<output>` | `ERR\t<text>` | `DEC\t<text>` | `PANIC`.
use std::io::{BufRead, Write};
use sylvia::cw_std::{from_json, to_json_string, Empty, Response};
use sylvia::into_response::IntoResponse;

#[sylvia::cw_schema::cw_serde(crate = "sylvia::cw_schema")]
pub enum MyMsg {
    Ping { n: u32 },
}
impl sylvia::cw_std::CustomMsg for MyMsg {}

fn main() {
    std::panic::set_hook(Box::new(|_| {}));
    let stdin = std::io::stdin();
    let out = std::io::stdout();
    let mut out = out.lock();
    for line in stdin.lock().lines() {
        let line = line.unwrap();
        if line.trim().is_empty() {
            continue;
        }
        let r = std::panic::catch_unwind(|| {
            let resp: Response<Empty> = match from_json(line.as_bytes()) {
                Ok(r) => r,
                Err(e) => return format!("DEC\t{e}"),
            };
            let input = to_json_string(&resp).unwrap();
            match IntoResponse::<MyMsg>::into_response(resp) {
                Ok(o) => format!("OK\t{}\t{}", input, to_json_string(&o).unwrap()),
                Err(e) => format!("ERR\t{e}"),
            }
        });
        writeln!(out, "{}", r.unwrap_or_else(|_| "PANIC".to_owned())).unwrap();
    }
}
